"""Kani pipeline: scratch copy of /repo, injection of harness modules (no function body is touched),
cargo kani on a list of harnesses, result parsing, concrete playback of counterexamples."""
import os, re, shutil, subprocess, threading, time, signal, json

SCRATCH_ROOT = os.environ.get("VERIF_SCRATCH", "/var/tmp")

class Harness:
    def __init__(self, name, props, kind="complete", tier="quick", bound="", unit="", features=None, note="", module=""):
        self.name, self.props, self.kind, self.tier, self.bound = name, props, kind, tier, bound
        self.unit, self.features, self.note, self.module = unit, features, note, module

def discover(unit_file, unit_name, module):
    """`// @harness name=.. props=C05,C20 kind=complete|bounded [tier=thorough] [bound="..."] [features=a+b]` lines"""
    out = []
    with open(unit_file) as f:
        for ln in f:
            m = re.match(r"\s*//\s*@harness\s+(.*)$", ln)
            if not m:
                continue
            kv = dict(re.findall(r'(\w+)=("[^"]*"|\S+)', m.group(1)))
            kv = {k: v.strip('"') for k, v in kv.items()}
            out.append(Harness(kv["name"], kv.get("props", "").split(","), kv.get("kind", "complete"),
                               kv.get("tier", "quick"), kv.get("bound", ""), unit_name,
                               kv.get("features"), kv.get("note", ""), module))
    return out

def make_scratch_dir():
    d = os.path.join(SCRATCH_ROOT, "mcv.%d.%d" % (os.getpid(), int(time.time() * 1000) % 100000))
    os.makedirs(d)
    return d

def copy_repo(repo, dest):
    os.makedirs(dest, exist_ok=True)
    subprocess.run(["rsync", "-a", "--exclude", "target", "--exclude", ".git", repo.rstrip("/") + "/", dest.rstrip("/") + "/"], check=True)

def rm_scratch(d):
    if d and os.path.isdir(d) and os.path.basename(d).startswith("mcv."):
        shutil.rmtree(d, ignore_errors=True)

class InjectError(Exception):
    pass

def inject(scratch_repo, verif, injections):
    """injections: list of dicts
         {"copy": (src_rel_to_verif, dest_rel_to_repo)}
         {"append": (file_rel, text)}
         {"replace_line": (file_rel, regex, replacement)}   -- lint lines only
         {"attr_before_fn": (file_rel, impl_hint, fn_name, attr_text)}
    """
    log = []
    for inj in injections:
        if "copy" in inj:
            s, dst = inj["copy"]
            dstp = os.path.join(scratch_repo, dst)
            os.makedirs(os.path.dirname(dstp), exist_ok=True)
            shutil.copy(os.path.join(verif, s), dstp)
            log.append("copied %s -> %s" % (s, dst))
        elif "append" in inj:
            f, text = inj["append"]
            p = os.path.join(scratch_repo, f)
            if not os.path.exists(p):
                raise InjectError("lost anchor: file %s" % f)
            with open(p, "a") as fh:
                fh.write("\n" + text + "\n")
            log.append("appended to %s: %s" % (f, text.strip().split("\n")[0][:100]))
        elif "replace_line" in inj:
            f, rx, rep = inj["replace_line"]
            p = os.path.join(scratch_repo, f)
            src = open(p).read()
            new, n = re.subn(rx, rep, src, flags=re.M)
            if n == 0 and not inj.get("optional"):
                raise InjectError("lost anchor: %s in %s" % (rx, f))
            open(p, "w").write(new)
            log.append("lint line rewritten in %s (%d)" % (f, n))
        elif "copy_dir" in inj:
            # an external harness crate: lives next to the scratch copy of the repository, path-depends on it
            sdir, dst = inj["copy_dir"]
            dstp = os.path.normpath(os.path.join(scratch_repo, dst))
            if os.path.isdir(dstp):
                shutil.rmtree(dstp)
            shutil.copytree(os.path.join(verif, sdir), dstp, ignore=shutil.ignore_patterns("target", "Cargo.lock"))
            log.append("copied harness crate %s -> %s" % (sdir, dst))
        elif "lockfile" in inj:
            d = os.path.normpath(os.path.join(scratch_repo, inj["lockfile"]))
            e = dict(os.environ); e["CARGO_NET_OFFLINE"] = "true"; e.pop("RUSTUP_TOOLCHAIN", None)
            p = subprocess.run(["cargo", "generate-lockfile", "--offline"], cwd=d, env=e, capture_output=True, text=True)
            if p.returncode != 0:
                raise InjectError("cargo generate-lockfile failed in %s: %s" % (d, p.stderr[-400:]))
            log.append("generated Cargo.lock offline in %s" % inj["lockfile"])
        elif "write" in inj:
            f, text = inj["write"]
            p = os.path.join(scratch_repo, f)
            os.makedirs(os.path.dirname(p), exist_ok=True)
            open(p, "w").write(text)
            log.append("wrote %s" % f)
    return log

class Watchdog(threading.Thread):
    """kills cbmc processes whose RSS exceeds the limit (no swap on this machine)"""
    def __init__(self, limit_gb=14.0, total_gb=40.0, root_pid=None):
        super().__init__(daemon=True)
        self.root_pid = root_pid
        self.limit_kb = int(limit_gb * 1024 * 1024)
        self.total_kb = int(total_gb * 1024 * 1024)
        self.stop = False
        self.killed = []
    def run(self):
        while not self.stop:
            procs = []
            try:
                for pid in os.listdir("/proc"):
                    if not pid.isdigit():
                        continue
                    try:
                        with open("/proc/%s/status" % pid) as f:
                            st = f.read()
                    except OSError:
                        continue
                    m = re.search(r"^Name:\s+(\S+)", st, re.M)
                    if not m or m.group(1) not in ("cbmc", "goto-instrument", "goto-synthesizer"):
                        continue
                    if self.root_pid and not self._descends(int(pid)):
                        continue      # only our own children: other sessions run their own verifiers
                    r = re.search(r"^VmRSS:\s+(\d+) kB", st, re.M)
                    if r:
                        procs.append((int(r.group(1)), int(pid)))
            except OSError:
                pass
            tot = sum(k for k, _ in procs)
            for kb, pid in sorted(procs, reverse=True):
                if kb > self.limit_kb or tot > self.total_kb:
                    try:
                        os.kill(pid, signal.SIGKILL)
                        self.killed.append((pid, kb))
                        tot -= kb
                    except OSError:
                        pass
            time.sleep(1.5)

def _ppid(pid):
    try:
        with open("/proc/%d/stat" % pid) as f:
            return int(f.read().rsplit(")", 1)[1].split()[1])
    except (OSError, ValueError, IndexError):
        return 0

def _descends_from(pid, root):
    for _ in range(64):
        if pid == root:
            return True
        if pid <= 1:
            return False
        pid = _ppid(pid)
    return False

Watchdog._descends = lambda self, pid: _descends_from(pid, self.root_pid)

def parse_terse(out):
    """returns {harness_fullname: {"status", "failed": [...], "covers": (sat,total), "checks": (failed,total), "time": s}}"""
    res = {}
    cur = {}          # thread -> harness
    lines = out.split("\n")
    i = 0
    active = None
    single = None
    while i < len(lines):
        ln = lines[i]
        m = re.match(r"(?:Thread (\d+): )?Checking harness ([\w:<>]+)\.\.\.", ln)
        if m:
            th = m.group(1) or "0"
            cur[th] = m.group(2)
            res.setdefault(m.group(2), {"status": "UNKNOWN", "failed": [], "covers": (0, 0), "checks": (0, 0), "time": 0.0})
            active = m.group(2) if m.group(1) is None else active
            i += 1
            continue
        m = re.match(r"Thread (\d+):\s*$", ln)
        if m:
            active = cur.get(m.group(1))
            i += 1
            continue
        if active and active in res:
            r = res[active]
            m = re.match(r"\s*\*\* (\d+) of (\d+) failed", ln)
            if m:
                r["checks"] = (int(m.group(1)), int(m.group(2)))
            m = re.match(r"\s*\*\* (\d+) of (\d+) cover properties satisfied", ln)
            if m:
                r["covers"] = (int(m.group(1)), int(m.group(2)))
            m = re.match(r"Failed Checks: (.*)$", ln)
            if m:
                loc = lines[i + 1].strip() if i + 1 < len(lines) and lines[i + 1].strip().startswith("File:") else ""
                r["failed"].append({"check": m.group(1), "where": loc})
            m = re.match(r"VERIFICATION:- (\w+)", ln)
            if m:
                r["status"] = m.group(1)
            m = re.match(r"Verification Time: ([\d.]+)s", ln)
            if m:
                r["time"] = float(m.group(1))
        i += 1
    return res

def run_kani(crate_dir, harnesses, features="", no_default=False, jobs=8, timeout=1500, extra_args=None, env=None, log_path=None, harness_timeout=600, exact_ok=False):
    """harnesses: list of names (function names; matched as suffix of module path)"""
    cmd = ["cargo", "kani", "--lib", "-Z", "function-contracts", "-Z", "stubbing", "--output-format", "terse", "-j", str(jobs)]
    if harness_timeout:
        cmd += ["-Z", "unstable-options", "--harness-timeout", "%ds" % harness_timeout]
    if features:
        cmd += ["--features", features]
    if no_default:
        cmd += ["--no-default-features"]
    if harnesses and all("::" in h or exact_ok for h in harnesses):
        cmd += ["--exact"]
    for h in harnesses:
        cmd += ["--harness", h]
    if extra_args:
        cmd += extra_args
    e = dict(os.environ)
    e["CARGO_NET_OFFLINE"] = "true"
    e.pop("RUSTUP_TOOLCHAIN", None)
    if env:
        e.update(env)
    wd = Watchdog()
    t0 = time.time()
    timed_out = False
    try:
        p = subprocess.Popen(cmd, cwd=crate_dir, env=e, stdout=subprocess.PIPE, stderr=subprocess.STDOUT, text=True,
                             start_new_session=True)
        wd.root_pid = p.pid
        wd.start()
        try:
            out, _ = p.communicate(timeout=timeout)
        except subprocess.TimeoutExpired:
            timed_out = True
            try:
                os.killpg(p.pid, signal.SIGKILL)
            except OSError:
                pass
            out, _ = p.communicate()
    finally:
        wd.stop = True
    wall = time.time() - t0
    if log_path:
        with open(log_path, "w") as f:
            f.write(" ".join(cmd) + "\n" + out)
    res = parse_terse(out)
    compile_error = ("error: could not compile" in out) or ("Failed to execute cargo" in out) or ("error[E" in out and not res)
    return {"cmd": " ".join(cmd), "results": res, "wall": wall, "timed_out": timed_out, "killed": wd.killed,
            "compile_error": compile_error, "tail": out[-4000:], "rc": p.returncode}

def playback(crate_dir, harness, features="", timeout=900, log_path=None):
    """re-run one failing harness with concrete playback; returns the generated unit test text (or '')"""
    cmd = ["cargo", "kani", "--lib", "-Z", "function-contracts", "-Z", "stubbing", "-Z", "concrete-playback",
           "--concrete-playback=print", "--harness", harness]
    if features:
        cmd += ["--features", features]
    e = dict(os.environ)
    e["CARGO_NET_OFFLINE"] = "true"
    e.pop("RUSTUP_TOOLCHAIN", None)
    try:
        p = subprocess.run(cmd, cwd=crate_dir, env=e, capture_output=True, text=True, timeout=timeout)
        out = p.stdout + p.stderr
    except subprocess.TimeoutExpired:
        return "", "playback timed out"
    if log_path:
        with open(log_path, "w") as f:
            f.write(out)
    m = re.search(r"```\s*\n(.*?#\[test\].*?)```", out, re.S)
    test = m.group(1) if m else ""
    if not test:
        m = re.search(r"(/// Test generated for harness.*?\n}\n)", out, re.S)
        test = m.group(1) if m else ""
    return test, out[-3000:]
