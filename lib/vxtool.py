"""dev helper: python3 -m lib.vxtool <unit.vx> <out.rs>  -> expands and self-checks"""
import sys, os
from . import vx
def main():
    unit, out = sys.argv[1], sys.argv[2]
    repo = os.environ.get("VERIF_REPO", "/repo")
    ex = vx.Expander(repo, os.path.dirname(os.path.dirname(os.path.abspath(__file__))))
    ex.expand(unit)
    text = ex.text()
    open(out, "w").write(text)
    probs, n = vx.verify_generated(text, repo)
    print("items:", n, "problems:", probs)
    for l in ex.log: print("  log:", l)
main()
