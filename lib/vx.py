"""Expand a .vx unit into a single Verus file by copying items verbatim from /repo.

Directives (lines whose first non-blank characters are `//@`):

  //@features std alloc half          cargo features assumed on for #[cfg(feature=..)] selection (R4)
  //@include <path relative to /verif>
  //@rewrite OLD ~~> NEW              token-sequence rewrite applied to every item extracted afterwards
  //@struct <file> <Name>             copy struct, fields made pub (R3), attributes dropped
  //@enum   <file> <Name>             copy enum
  //@const  <file> <NAME>             copy const item
  //@impl   <file> <header tokens>    open impl block(s) with exactly this header; emits header + `{`
  //@endimpl                          emits `}`
  //@assoc  <leading tokens>          copy an associated item (e.g. `type Error`) up to `;`
  //@fn <name> [ret=<ident>] [props=C01,C02] [file=<file>] [nth=<k>] [external_body]
  //@| <text>                         spec text, placed between signature and body (or at loop / hint anchor)
  //@edit[opts] OLD ~~> NEW           replace token sequence OLD inside the body (opts: n=<count>, wrap, sig, first = only the first remaining occurrence, any = every occurrence / none)
  //@loop <k>                         following //@| lines are attached to the k-th loop (1-based)
  //@before[k] TOKENS / //@after[k] TOKENS   following //@| lines are ghost text inserted there
  //@endfn                            (optional) ends the fn directive group

Everything else is copied to the output unchanged.

Generated text carries markers so that `verify_generated` can undo every insertion / replacement and
check that what remains is a contiguous token run of the file in /repo.
"""
import base64, os, re, sys
from . import rtok

class VxError(Exception):
    """anchor lost / construct not understood: the caller turns this into exit 2"""

MI = "/*@I*/"
ME = "/*@E*/"
def MR(orig):
    return "/*@R:" + base64.b64encode(orig.encode()).decode() + "*/"

QUALS = {"pub", "const", "unsafe", "async", "extern", "default"}

class Src:
    cache = {}
    def __init__(self, root, rel):
        self.rel = rel
        path = os.path.join(root, rel)
        with open(path) as f:
            self.text = f.read()
        self.toks = rtok.code(rtok.lex(self.text))
    @classmethod
    def get(cls, root, rel):
        k = (root, rel)
        if k not in cls.cache:
            cls.cache[k] = Src(root, rel)
        return cls.cache[k]

def norm(texts):
    return rtok.split_glued(list(texts))

def lex_frag(s):
    return [t.text for t in rtok.code(rtok.lex(s))]

def eval_cfg(toks, feats):
    """toks: tokens inside #[ ... ] ; returns True/False/None(not a cfg)"""
    tx = [t.text for t in toks]
    if not tx or tx[0] != "cfg":
        return None
    return _cfg_expr(tx[2:-1], feats)

def _cfg_expr(tx, feats):
    # tx: tokens of the predicate
    if tx[0] == "feature" and tx[1] == "=":
        return tx[2].strip('"') in feats
    if tx[0] in ("not", "all", "any"):
        # split args at depth 0
        inner = tx[2:-1]
        args, cur, d = [], [], 0
        for t in inner:
            if t == "(":
                d += 1
            elif t == ")":
                d -= 1
            if t == "," and d == 0:
                args.append(cur); cur = []
            else:
                cur.append(t)
        if cur:
            args.append(cur)
        vals = [_cfg_expr(a, feats) for a in args]
        if tx[0] == "not":
            return not vals[0]
        if tx[0] == "all":
            return all(vals)
        return any(vals)
    if tx[0] == "test":
        return False
    if tx[0] == "target_pointer_width" and tx[1] == "=":
        return tx[2].strip('"') == "64"          # verified for 64-bit targets (stated in the evidence)
    if tx[0] in ("atomic32", "atomic64"):
        return True
    if tx[0] == "kani" or tx[0] == "verus_keep_ghost":
        return False
    raise VxError("cfg predicate not understood: %s" % " ".join(tx))

def attrs_before(toks, i):
    """return (start, list of (a_lo, a_hi)) for attributes + qualifiers directly preceding toks[i]"""
    j = i
    attrs = []
    while True:
        # qualifiers
        if j > 0 and toks[j-1].text in QUALS and toks[j-1].kind == "id":
            j -= 1; continue
        if j > 0 and toks[j-1].text == ")" :
            # pub(crate)
            k = j - 1
            while k > 0 and toks[k].text != "(":
                k -= 1
            if k > 0 and toks[k-1].text == "pub":
                j = k - 1; continue
        if j > 0 and toks[j-1].kind == "str" and j > 1 and toks[j-2].text == "extern":
            j -= 2; continue
        break
    qual_start = j
    while j > 0 and toks[j-1].text == "]":
        k = j - 1
        depth = 0
        while k >= 0:
            if toks[k].text == "]":
                depth += 1
            elif toks[k].text == "[":
                depth -= 1
                if depth == 0:
                    break
            k -= 1
        if k > 0 and toks[k-1].text == "#":
            attrs.append((k - 1, j))
            j = k - 1
        else:
            break
    return qual_start, attrs

def cfg_ok(toks, attrs, feats):
    for lo, hi in attrs:
        v = eval_cfg(toks[lo+2:hi-1], feats)
        if v is False:
            return False
    return True

def top_level_positions(toks, lo, hi, word):
    """indices i in [lo,hi) at brace depth 0 (relative) where toks[i].text == word (an identifier)"""
    out, depth = [], 0
    for i in range(lo, hi):
        t = toks[i]
        if t.kind == "punct":
            if t.text in rtok.OPEN:
                depth += 1
            elif t.text in rtok.CLOSE:
                depth -= 1
        elif depth == 0 and t.kind == "id" and t.text == word:
            out.append(i)
    return out

def first_at_depth0(toks, i, stop_texts, hi=None):
    depth = 0
    hi = len(toks) if hi is None else hi
    while i < hi:
        t = toks[i]
        if t.kind == "punct":
            if depth == 0 and t.text in stop_texts:
                return i
            if t.text in rtok.OPEN:
                depth += 1
            elif t.text in rtok.CLOSE:
                depth -= 1
                if depth < 0:
                    return None
        i += 1
    return None

class Piece:
    """an output fragment: either original tokens, an insertion, or a replacement"""
    def __init__(self, kind, text, orig=""):
        self.kind, self.text, self.orig = kind, text, orig
    def render(self):
        if self.kind == "orig":
            return self.text
        if self.kind == "ins":
            return " " + MI + self.text + ME
        return " " + MR(self.orig) + self.text + ME

class Expander:
    def __init__(self, repo_root, verif_root, features=("std", "alloc", "half"), force_features=False):
        self.force_features = force_features
        self.repo = repo_root
        self.verif = verif_root
        self.feats = set(features)
        self.rewrites = []           # (old_texts, new_text)
        self.out = []                # output lines (strings, may contain newlines)
        self.items = []              # dicts: name,file,props,kind, start_line,end_line (filled at the end)
        self.log = []                # human-readable list of edits / rewrites / drops
        self.cur_impl = None         # (Src, [(open, close)])
        self.cur_trait = None

    # ---------------------------------------------------------------- directive parsing
    def expand(self, unit_path):
        with open(unit_path) as f:
            lines = f.read().split("\n")
        self.unit = unit_path
        i = 0
        while i < len(lines):
            ln = lines[i]
            s = ln.strip()
            if not s.startswith("//@"):
                self.out.append(ln)
                i += 1
                continue
            d = s[3:]
            if d.startswith("features"):
                if not self.force_features:
                    self.feats = set(d.split()[1:])
            elif d.startswith("include "):
                p = os.path.join(self.verif, d.split(None, 1)[1].strip())
                sub = Expander(self.repo, self.verif, self.feats, self.force_features)
                sub.rewrites = self.rewrites
                sub.expand(p)
                self.out.append("// ---- include %s" % p)
                self.out.extend(sub.out)
                self.items.extend(sub.items)
                self.log.extend(sub.log)
                self.rewrites = sub.rewrites
            elif d.startswith("rewrite "):
                old, new = d[len("rewrite "):].split("~~>")
                self.rewrites.append((norm(lex_frag(old)), new.strip()))
                self.log.append("rewrite (all items): `%s` -> `%s`" % (old.strip(), new.strip()))
            elif d.startswith("struct ") or d.startswith("enum ") or d.startswith("const ") or d.startswith("static "):
                kind, rel, name = d.split()[:3]
                opts = dict(kv.split("=", 1) for kv in d.split()[3:] if "=" in kv)
                self.item_simple(kind, rel, name, opts)
            elif d.startswith("impl ") or d.startswith("trait "):
                kind, rel, hdr = d.split(None, 2)
                self.open_block(kind, rel, hdr)
            elif d.startswith("endimpl") or d.startswith("endtrait"):
                self.out.append("}")
                self.cur_impl = None
            elif d.startswith("assoc "):
                self.assoc(d[len("assoc "):])
            elif d.startswith("fn "):
                # gather the group
                group = []
                i += 1
                while i < len(lines) and lines[i].strip().startswith("//@") and \
                        re.match(r"//@(\||\+|#|edit|loop|before|after|endfn)", lines[i].strip()):
                    if lines[i].strip().startswith("//@endfn"):
                        i += 1
                        break
                    group.append(lines[i].strip()[3:])
                    i += 1
                self.do_fn(d[3:].split(), group)
                continue
            elif d.startswith("when "):
                # //@when alloc|!alloc ... //@endwhen : the enclosed directives exist only in configurations with /
                # without that feature (the items they name carry the matching #[cfg] in /repo)
                w = d.split()[1]
                have = w.lstrip("!") in self.feats
                if have == w.startswith("!"):
                    self.log.append("block skipped in this configuration (when %s)" % w)
                    while i < len(lines) and not lines[i].strip().startswith("//@endwhen"):
                        i += 1
            elif d.startswith("endwhen"):
                pass
            elif d.startswith("#"):
                pass  # comment directive
            else:
                raise VxError("%s:%d: unknown directive %s" % (unit_path, i + 1, d))
            i += 1
        return self

    # ---------------------------------------------------------------- emit helpers
    def emit_item(self, src, name, kind, props, pieces, extra=None):
        text = "".join(p.render() for p in pieces)
        hdr = "/*@ITEM %s#%s#%s*/" % (src.rel, kind, name)
        rec = {"file": src.rel, "name": name, "kind": kind, "props": props, "text_marker": hdr}
        if extra:
            rec.update(extra)
        self.items.append(rec)
        self.out.append(hdr + text + "\n/*@END*/")

    def apply_rewrites(self, pieces):
        """apply global rewrites to 'orig' pieces (token level)"""
        for old, new in self.rewrites:
            pieces = self._replace_in_pieces(pieces, old, new, count=None, label="rewrite")
        return pieces

    def _replace_in_pieces(self, pieces, old, new, count, label, wrap=False, first=False):
        """find token sequence `old` inside orig pieces; replace by `new`. count=None: any number"""
        total = 0
        out = []
        for p in pieces:
            if p.kind != "orig" or (first and total >= 1):
                out.append(p); continue
            toks = rtok.lex(p.text)
            ntx = []
            idxmap = []
            for k, t in enumerate(toks):
                for part in rtok.split_glued([t.text]):
                    ntx.append(part); idxmap.append(k)
            hits = []
            k = 0
            while k + len(old) <= len(ntx):
                if ntx[k:k+len(old)] == old:
                    hits.append((idxmap[k], idxmap[k+len(old)-1] + 1))
                    k += len(old)
                else:
                    k += 1
            if first:
                hits = hits[:1]   # `first`: only the first remaining occurrence (earlier edits have consumed theirs)
            if not hits:
                out.append(p); continue
            total += len(hits)
            pos = 0
            for (a, b) in hits:
                out.append(Piece("orig", rtok.emit(toks[pos:a])))
                orig_text = rtok.emit(toks[a:b]).strip()
                lead = toks[a].ws
                out.append(Piece("orig", lead))
                out.append(Piece("rep", new, orig_text))
                pos = b
                if wrap:
                    # closure body: expression up to the unmatched `)` or `,` at depth 0
                    e = first_at_depth0(toks, b, (",", ")", ";"))
                    if e is None:
                        raise VxError("wrap: cannot find end of closure body")
                    if toks[b].text == "{":
                        pass  # already a block
                    else:
                        out.append(Piece("ins", "{"))
                        out.append(Piece("orig", rtok.emit(toks[b:e])))
                        out.append(Piece("ins", "}"))
                        pos = e
            tail = rtok.emit(toks[pos:])
            # whitespace after the last token of the piece is not held by any token: keep it
            m = re.search(r"\s*$", p.text)
            out.append(Piece("orig", tail + (m.group(0) if m else "")))
        if count is not None and total != count:
            raise VxError("%s: expected %d occurrence(s) of `%s`, found %d" % (label, count, " ".join(old), total))
        return out

    # ---------------------------------------------------------------- simple items
    def item_simple(self, kind, rel, name, opts=None):
        opts = opts or {}
        src = Src.get(self.repo, rel)
        toks = src.toks
        cands = [i for i in top_level_positions(toks, 0, len(toks), kind)
                 if i + 1 < len(toks) and toks[i+1].text == name]
        chosen = None
        for i in cands:
            start, attrs = attrs_before(toks, i)
            if cfg_ok(toks, attrs, self.feats):
                chosen = (i, start, attrs)
                break
        if chosen is None:
            raise VxError("lost anchor: %s %s in %s" % (kind, name, rel))
        i, start, attrs = chosen
        if kind in ("const", "static"):
            end = first_at_depth0(toks, i, (";",)) + 1
        else:
            j = first_at_depth0(toks, i, ("{", "(", ";"))
            if toks[j].text == ";":
                end = j + 1
            else:
                end = rtok.match_close(toks, j) + 1
                if toks[j].text == "(":
                    end = first_at_depth0(toks, end, (";",)) + 1
        pieces = []
        # dropped attributes are restored in the marker so the token run stays contiguous
        if attrs:
            a_lo = min(a for a, _ in attrs)
            pieces.append(Piece("rep", "", rtok.emit(toks[a_lo:start]).strip()))
            self.log.append("%s %s: attributes dropped: %s" % (kind, name, rtok.emit(toks[a_lo:start]).strip().replace("\n", " ")))
        if opts.get("derive"):
            # a subset of the dropped derive list is kept (Verus supports Clone / Copy derives)
            pieces.append(Piece("ins", "#[derive(%s)]\n" % opts["derive"].replace(",", ", ")))
            self.log.append("%s %s: kept derive(%s) of the dropped attribute list" % (kind, name, opts["derive"]))
        body = toks[start:end]
        if kind == "struct":
            pieces.extend(self._pub_fields(body, name))
        else:
            pieces.append(Piece("orig", rtok.emit(body)))
        pieces = self.apply_rewrites(pieces)
        self.emit_item(src, name, kind, [], pieces)

    def _pub_fields(self, body, name):
        """R3: make fields public"""
        pieces = []
        j = first_at_depth0(body, 0, ("{", "(", ";"))
        if body[j].text == ";":
            return [Piece("orig", rtok.emit(body))]
        close = rtok.match_close(body, j)
        pieces.append(Piece("orig", rtok.emit(body[:j+1])))
        depth = 0
        seg_start = j + 1
        at_field_start = True
        k = j + 1
        n_pub = 0
        while k < close:
            t = body[k]
            if at_field_start and depth == 0:
                # skip attributes
                if t.text == "#":
                    e = rtok.match_close(body, k + 1)
                    k = e + 1
                    continue
                if t.text != "pub":
                    pieces.append(Piece("orig", rtok.emit(body[seg_start:k]) + t.ws))
                    pieces.append(Piece("ins", "pub "))
                    # re-emit token without its leading ws
                    pieces.append(Piece("orig", t.text))
                    seg_start = k + 1
                    n_pub += 1
                at_field_start = False
            if t.kind == "punct":
                if t.text in rtok.OPEN or t.text == "<":
                    depth += 1
                elif t.text in rtok.CLOSE or t.text == ">":
                    depth -= 1
                elif t.text == "," and depth == 0:
                    at_field_start = True
            k += 1
        pieces.append(Piece("orig", rtok.emit(body[seg_start:])))
        if n_pub:
            self.log.append("struct %s: %d private field(s) made pub (R3)" % (name, n_pub))
        return pieces

    # ---------------------------------------------------------------- impl / trait blocks
    def open_block(self, kind, rel, hdr):
        src = Src.get(self.repo, rel)
        toks = src.toks
        want = norm(lex_frag(hdr))
        found = []
        for i in top_level_positions(toks, 0, len(toks), kind):
            j = first_at_depth0(toks, i, ("{",))
            if j is None:
                continue
            # include qualifiers such as `unsafe impl` / `pub trait`
            start, attrs = attrs_before(toks, i)
            have = norm(t.text for t in toks[i:j])
            have_q = norm(t.text for t in toks[start:j])
            if have == want or have_q == want:
                if cfg_ok(toks, attrs, self.feats):
                    found.append((start if have_q == want else i, j, rtok.match_close(toks, j)))
        if not found:
            raise VxError("lost anchor: %s `%s` in %s" % (kind, hdr, rel))
        s, j, c = found[0]
        hdr_text = rtok.emit(toks[s:j]).strip()
        self.cur_impl = (src, [(o, cl) for _, o, cl in found], hdr_text)
        self.out.append("/*@ITEM %s#%shdr#%s*/%s/*@END*/ {" % (rel, kind, re.sub(r"\s+", " ", hdr_text), hdr_text))
        self.items.append({"file": rel, "name": hdr_text, "kind": kind + "hdr", "props": []})

    def assoc(self, lead):
        src, blocks, _ = self.cur_impl
        toks = src.toks
        want = norm(lex_frag(lead))
        for (o, c) in blocks:
            for i in range(o + 1, c):
                if norm(t.text for t in toks[i:i+len(want)]) == want:
                    # depth check
                    e = first_at_depth0(toks, i, (";",))
                    self.emit_item(src, lead, "assoc", [], [Piece("orig", rtok.emit(toks[i:e+1]))])
                    return
        raise VxError("lost anchor: assoc `%s`" % lead)

    # ---------------------------------------------------------------- functions
    def do_fn(self, args, group):
        name = args[0]
        opt = {}
        flags = set()
        for a in args[1:]:
            if "=" in a:
                k, v = a.split("=", 1); opt[k] = v
            else:
                flags.add(a)
        props = [p for p in opt.get("props", "").split(",") if p]
        if "when" in opt:
            # when=alloc / when=!alloc: the whole group only exists in configurations with / without that feature
            w = opt["when"]
            if (w[1:] in self.feats) if w.startswith("!") else (w not in self.feats):
                self.log.append("fn %s: group skipped in this configuration (when=%s)" % (name, w))
                return
        if "file" in opt:
            src = Src.get(self.repo, opt["file"])
            ranges = [(-1, len(src.toks))]
        elif self.cur_impl:
            src, ranges, _ = self.cur_impl
        else:
            raise VxError("fn %s: no impl context and no file=" % name)
        toks = src.toks
        cands = []
        for (o, c) in ranges:
            for i in top_level_positions(toks, o + 1, c, "fn"):
                if toks[i+1].text == name:
                    start, attrs = attrs_before(toks, i)
                    if cfg_ok(toks, attrs, self.feats):
                        cands.append((i, start, attrs, c))
        nth = int(opt.get("nth", "1"))
        if len(cands) < nth:
            raise VxError("lost anchor: fn %s in %s (%s)" % (name, src.rel, self.cur_impl[2] if self.cur_impl else "free"))
        i, start, attrs, blk_close = cands[nth - 1]
        j = first_at_depth0(toks, i, ("{", ";"), blk_close)
        if j is None:
            raise VxError("fn %s: no body" % name)
        has_body = toks[j].text == "{"
        close = rtok.match_close(toks, j) if has_body else j
        sig = toks[start:j]
        body = toks[j:close+1]

        # parse the group
        spec_sig, edits, loops, anchors = [], [], {}, []
        opt_loops = set()
        cur = ("sig", None)
        def add_line(text):
            if cur[0] == "sig":
                spec_sig.append(text)
            elif cur[0] == "loop":
                loops.setdefault(cur[1], []).append(text)
            elif cur[0] == "anchor":
                anchors[cur[1]][3].append(text)
            elif cur[0] == "edit":
                edits[cur[1]][2] += "\n" + text
        for g in group:
            if g.startswith("#"):
                continue
            if g.startswith("|"):
                add_line(g[1:].rstrip() if not g.startswith("| ") else g[2:].rstrip())
            elif g.startswith("+"):
                add_line(g[1:].lstrip(" ").rstrip())
            elif g.startswith("edit"):
                m = re.match(r"edit(\[([^\]]*)\])?\s+(.*?)\s*~~>\s*(.*)$", g)
                if not m:
                    raise VxError("bad edit directive: %s" % g)
                eo = m.group(2) or ""
                edits.append([eo, m.group(3), m.group(4)])
                cur = ("edit", len(edits) - 1)
            elif g.startswith("loop"):
                # `loop? k`: a spec for a loop that a change may legitimately remove (then nothing is attached and the
                # function is verified as it stands); `loop k`: the loop must exist (lost anchor otherwise)
                k = int(g.split()[1]); cur = ("loop", k)
                if g.startswith("loop?"):
                    opt_loops.add(k)
            elif g.startswith("before") or g.startswith("after"):
                m = re.match(r"(before|after)(\[(\d+)\])?\s+(.*)$", g)
                anchors.append((m.group(1), int(m.group(3) or 1), m.group(4), []))
                cur = ("anchor", len(anchors) - 1)
            else:
                raise VxError("bad fn sub-directive: %s" % g)

        pieces = []
        if attrs:
            a_lo = min(a for a, _ in attrs)
            dropped = rtok.emit(toks[a_lo:start]).strip()
            pieces.append(Piece("rep", "", dropped))
            self.log.append("fn %s: attributes dropped: %s" % (name, dropped.replace("\n", " ")))
        # signature with named return
        ret = opt.get("ret")
        sig_pieces = self._sig_pieces(sig, ret)
        pieces.extend(sig_pieces)
        item_name = name
        if "as" in opt:
            # second extraction of the same function under another name (e.g. the body of a function whose
            # callers use an assumed contract): only the identifier after `fn` changes
            pieces = self._replace_in_pieces(pieces, norm(lex_frag("fn " + name)), "fn " + opt["as"], 1, "fn %s as=" % name)
            item_name = opt["as"]
            self.log.append("fn %s: extracted a second time under the name `%s`" % (name, opt["as"]))
        if "external_body" in flags:
            pieces.insert(0, Piece("ins", "#[verifier::external_body]\n"))
        if "noisolation" in flags:
            # verifier-only attribute: loop bodies see the facts established before the loop
            pieces.insert(0, Piece("ins", "#[verifier::loop_isolation(false)]\n"))
        if opt.get("rlimit"):
            pieces.insert(0, Piece("ins", "#[verifier::rlimit(%s)]\n" % opt["rlimit"]))
        if "nodecreases" in flags:
            # termination is not claimed for this function (verifier-only attribute)
            pieces.insert(0, Piece("ins", "#[verifier::exec_allows_no_decreases_clause]\n"))
            self.log.append("fn %s: termination not claimed (exec_allows_no_decreases_clause)" % name)
        if spec_sig:
            pieces.append(Piece("ins", "\n" + "\n".join("        " + s for s in spec_sig) + "\n    "))
        if not has_body:
            pieces.append(Piece("orig", rtok.emit(body)))
            pieces = self.apply_rewrites(pieces)
            self.emit_item(src, item_name, "fn", props, pieces)
            return
        self._opt_loops = opt_loops
        body_pieces = self._body_pieces(body, loops, anchors, name)
        body_pieces = self._cfg_in_body(body_pieces, name)
        for eo, old, new in edits:
            eopts = dict((kv.split("=") + [True])[:2] for kv in eo.split(",") if kv)
            cnt = None if "any" in eopts else int(eopts.get("n", 1))   # any: every occurrence, none is fine too
            target = body_pieces
            if "sig" in eopts:
                pieces = self._replace_in_pieces(pieces, norm(lex_frag(old)), new, cnt, "fn %s edit" % name)
            else:
                body_pieces = self._replace_in_pieces(body_pieces, norm(lex_frag(old)), new, cnt,
                                                      "fn %s edit" % name, wrap=("wrap" in eopts), first=("first" in eopts))
            self.log.append("fn %s: edit `%s` -> `%s`%s" % (name, old, new.replace("\n", " "), " (closure body braced)" if "wrap" in eopts else ""))
        pieces.extend(body_pieces)
        pieces = self.apply_rewrites(pieces)
        self.emit_item(src, item_name, "fn", props, pieces,
                       {"impl": self.cur_impl[2] if self.cur_impl and "file" not in opt else None,
                        "external_body": "external_body" in flags})

    def _sig_pieces(self, sig, ret):
        if not ret:
            return [Piece("orig", rtok.emit(sig))]
        # find `->` at depth 0 after the parameter list
        k = None
        depth = 0
        for idx, t in enumerate(sig):
            if t.kind == "punct":
                if t.text in rtok.OPEN:
                    depth += 1
                elif t.text in rtok.CLOSE:
                    depth -= 1
                elif t.text == "->" and depth == 0:
                    k = idx
                    break
        if k is None:
            raise VxError("ret= given but no return type")
        # return type ends at `where` (depth 0) or end of sig
        e = len(sig)
        depth = 0
        for idx in range(k + 1, len(sig)):
            t = sig[idx]
            if t.kind == "punct" and t.text in rtok.OPEN:
                depth += 1
            elif t.kind == "punct" and t.text in rtok.CLOSE:
                depth -= 1
            elif t.kind == "id" and t.text == "where" and depth == 0:
                e = idx
                break
        return [Piece("orig", rtok.emit(sig[:k+1])), Piece("ins", "(%s:" % ret),
                Piece("orig", rtok.emit(sig[k+1:e])), Piece("ins", ")"),
                Piece("orig", rtok.emit(sig[e:]))]

    def _body_pieces(self, body, loops, anchors, name):
        """insert loop specs and anchored ghost text"""
        inserts = {}   # token index -> text inserted BEFORE that token
        # loops
        loop_idx = [i for i, t in enumerate(body) if t.kind == "id" and t.text in ("while", "loop", "for")
                    and not (i > 0 and body[i-1].text in ("<", "impl"))]   # `for<'a>` hrtb unlikely
        for k, lines in loops.items():
            if k > len(loop_idx):
                if k in getattr(self, "_opt_loops", ()):
                    self.log.append("fn %s: optional spec of loop %d not attached (the loop is not there)" % (name, k))
                    continue
                raise VxError("lost anchor: fn %s loop %d" % (name, k))
            i = loop_idx[k-1]
            # first `{` at paren depth 0 after the keyword
            j = first_at_depth0(body, i + 1, ("{",))
            inserts.setdefault(j, []).append("\n" + "\n".join("            " + l for l in lines) + "\n        ")
        for (where, occ, tokens, lines) in anchors:
            want = norm(lex_frag(tokens))
            hits = []
            ntx, idxmap = [], []
            for bi, t in enumerate(body):
                for part in rtok.split_glued([t.text]):
                    ntx.append(part); idxmap.append(bi)
            for s in range(0, len(ntx) - len(want) + 1):
                if ntx[s:s+len(want)] == want:
                    hits.append((idxmap[s], idxmap[s+len(want)-1] + 1))
            if len(hits) < occ:
                raise VxError("lost anchor: fn %s %s `%s`" % (name, where, tokens))
            a, b = hits[occ-1]
            at = a if where == "before" else b
            inserts.setdefault(at, []).append("\n" + "\n".join("            " + l for l in lines) + "\n        ")
        pieces = []
        pos = 0
        for at in sorted(inserts):
            pieces.append(Piece("orig", rtok.emit(body[pos:at])))
            for text in inserts[at]:
                pieces.append(Piece("ins", text))
            pos = at
        pieces.append(Piece("orig", rtok.emit(body[pos:])))
        return pieces

    def _cfg_in_body(self, pieces, name):
        """R4 inside bodies: resolve #[cfg(..)] attributes on match arms / statements"""
        out = []
        for p in pieces:
            if p.kind != "orig" or "#[" not in p.text and "# [" not in p.text:
                out.append(p); continue
            toks = rtok.lex(p.text)
            pos = 0
            k = 0
            changed = False
            while k < len(toks):
                if toks[k].text == "#" and k + 1 < len(toks) and toks[k+1].text == "[":
                    e = rtok.match_close(toks, k + 1)
                    v = eval_cfg(toks[k+2:e], self.feats)
                    if v is None:
                        k = e + 1; continue
                    out.append(Piece("orig", rtok.emit(toks[pos:k]) + toks[k].ws))
                    if v:
                        out.append(Piece("rep", "", rtok.emit(toks[k:e+1]).strip()))
                        pos = e + 1
                        self.log.append("fn %s: cfg attribute resolved true, dropped: %s" % (name, rtok.emit(toks[k:e+1]).strip()))
                    else:
                        # drop attribute and the element it decorates
                        s = e + 1
                        depth = 0
                        q = s
                        end = None
                        while q < len(toks):
                            t = toks[q]
                            if t.kind == "punct":
                                if t.text in rtok.OPEN:
                                    depth += 1
                                elif t.text in rtok.CLOSE:
                                    depth -= 1
                                    if depth < 0:
                                        end = q; break
                                    if depth == 0 and t.text == "}":
                                        end = q + 1
                                        if end < len(toks) and toks[end].text == ",":
                                            end += 1
                                        break
                                elif depth == 0 and t.text in (",", ";"):
                                    end = q + 1; break
                            q += 1
                        if end is None:
                            raise VxError("fn %s: cannot delimit cfg'd element" % name)
                        out.append(Piece("rep", "", rtok.emit(toks[k:end]).strip()))
                        self.log.append("fn %s: cfg attribute resolved false, element dropped: %s" % (name, rtok.emit(toks[k:end]).strip().replace("\n", " ")))
                        pos = end
                    k = pos
                    changed = True
                    continue
                k += 1
            tail = rtok.emit(toks[pos:])
            m = re.search(r"\s*$", p.text)
            out.append(Piece("orig", tail + (m.group(0) if m else "")))
        return out

    # ---------------------------------------------------------------- result
    def text(self):
        return "\n".join(self.out) + "\n"

def item_line_ranges(gen_text):
    """[(start_line, end_line, file, kind, name)] 1-based inclusive, from the markers"""
    out = []
    for m in re.finditer(r"/\*@ITEM ([^#]*)#([^#]*)#(.*?)\*/", gen_text):
        e = gen_text.find("/*@END*/", m.end())
        s_line = gen_text.count("\n", 0, m.start()) + 1
        e_line = gen_text.count("\n", 0, e) + 1
        out.append((s_line, e_line, m.group(1), m.group(2), m.group(3)))
    return out

def verify_generated(gen_text, repo_root):
    """Undo every marker and check that each item is a contiguous token run of its /repo file.
    Returns list of problems (empty = ok) and the number of items checked."""
    problems = []
    n = 0
    for m in re.finditer(r"/\*@ITEM ([^#]*)#([^#]*)#(.*?)\*/", gen_text):
        rel, kind, name = m.group(1), m.group(2), m.group(3)
        e = gen_text.find("/*@END*/", m.end())
        seg = gen_text[m.end():e]
        # undo replacements
        def undo_rep(mm):
            return " " + base64.b64decode(mm.group(1)).decode() + " "
        seg2 = re.sub(r"/\*@R:([A-Za-z0-9+/=]*)\*/.*?/\*@E\*/", undo_rep, seg, flags=re.S)
        seg2 = re.sub(r"/\*@I\*/.*?/\*@E\*/", " ", seg2, flags=re.S)
        try:
            want = norm(t.text for t in rtok.code(rtok.lex(seg2)))
        except rtok.LexError as ex:
            problems.append("%s %s: %s" % (rel, name, ex)); continue
        with open(os.path.join(repo_root, rel)) as f:
            have = norm(t.text for t in rtok.code(rtok.lex(f.read())))
        n += 1
        if not want:
            problems.append("%s %s: empty item" % (rel, name)); continue
        ok = False
        first = want[0]
        L = len(want)
        for s in range(0, len(have) - L + 1):
            if have[s] == first and have[s:s+L] == want:
                ok = True; break
        if not ok:
            problems.append("%s %s %s: generated item is not a token run of the repository file" % (rel, kind, name))
    return problems, n
