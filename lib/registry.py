"""Which units serve which property.  Harness lists are discovered from `// @harness` lines."""
import os
from . import kani_run

VERIF = os.path.dirname(os.path.dirname(os.path.abspath(__file__)))

# ---- Verus units: path, properties served, feature configurations per tier
VERUS_UNITS = {
    "decoder": {
        "path": "units/verus/decoder.vx",
        "props": ["C01", "C02", "C04", "C05", "C06", "C11", "C12", "C20"],
        "configs": {"quick": [("std", ["std", "alloc", "half"])],
                    "thorough": [("std", ["std", "alloc", "half"]), ("alloc", ["alloc", "half"]), ("none", ["half"])]},
        # only C20 needs every configuration; other properties use the first one
    },
    "encoder": {
        "path": "units/verus/encoder.vx",
        "props": ["C03", "C13", "C01", "C07", "C20"],
        "configs": {"quick": [("std", ["std", "alloc", "half"])],
                    "thorough": [("std", ["std", "alloc", "half"])]},
    },
    "lemmas": {
        "path": "units/verus/lemmas.vx",
        "props": ["C01", "C03", "C05"],
        "configs": {"quick": [("spec", ["std", "alloc", "half"])], "thorough": [("spec", ["std", "alloc", "half"])]},
    },
    "io": {
        "path": "units/verus/io.vx",
        "props": ["C14"],
        "configs": {"quick": [("std", ["std", "alloc", "half"])], "thorough": [("std", ["std", "alloc", "half"])]},
    },
    "iosink": {
        "path": "units/verus/iosink.vx",
        "props": ["C13"],
        "configs": {"quick": [("std", ["std", "alloc", "half"])], "thorough": [("std", ["std", "alloc", "half"])]},
    },
}

# ---- Kani: per crate, what is injected into the scratch copy before any harness runs
LINT = {"replace_line": ("minicbor/src/lib.rs", r"^#!\[forbid\(unused_variables\)\]",
                         "#![cfg_attr(not(kani), forbid(unused_variables))]")}

KANI_ERROR_OBSERVERS = """
#[cfg(kani)]
impl Error {
    pub(crate) fn kani_is_overflow(&self) -> bool { matches!(self.err, ErrorImpl::Overflow(_)) }
    pub(crate) fn kani_is_utf8(&self) -> bool { matches!(self.err, ErrorImpl::Utf8(_)) }
    pub(crate) fn kani_is_invalid_char(&self) -> bool { matches!(self.err, ErrorImpl::InvalidChar(_)) }
    #[cfg(feature = "alloc")]
    pub(crate) fn kani_message_class() -> Self { Error { err: ErrorImpl::Message, pos: None, msg: alloc::string::String::new() } }
}
"""

KANI_CRATES = {
    "minicbor": {
        "dir": "minicbor",
        "common": [
            LINT,
            {"copy": ("spec/rfc8949_ref.rs", "minicbor/src/kani_refspec.rs")},
            {"append": ("minicbor/src/lib.rs", "#[cfg(kani)] mod kani_refspec;")},
            {"copy": ("spec/kani_stubs.rs", "minicbor/src/kani_refspec_stubs.rs")},
            {"append": ("minicbor/src/lib.rs", "#[cfg(kani)] mod kani_refspec_stubs;")},
            # observers for error classes that have no public is_* (appended code, no function body touched)
            {"append": ("minicbor/src/decode/error.rs", KANI_ERROR_OBSERVERS)},
        ],
    },
}

KANI_UNITS = {
    "int_matrix": {
        "crate": "minicbor",
        "src": "units/kani/minicbor/int_matrix.rs",
        "inject": [
            {"copy": ("units/kani/minicbor/int_matrix.rs", "minicbor/src/kani_int_matrix.rs")},
            {"append": ("minicbor/src/lib.rs", "#[cfg(kani)] mod kani_int_matrix;")},
        ],
        "module": "kani_int_matrix",
    },
    "floats": {
        "crate": "minicbor",
        "src": "units/kani/minicbor/floats.rs",
        "inject": [
            {"copy": ("units/kani/minicbor/floats.rs", "minicbor/src/kani_floats.rs")},
            {"append": ("minicbor/src/lib.rs", "#[cfg(kani)] mod kani_floats;")},
        ],
        "module": "kani_floats",
    },
    "tokens": {
        "crate": "minicbor",
        "src": "units/kani/minicbor/tokens.rs",
        "inject": [
            {"copy": ("units/kani/minicbor/tokens.rs", "minicbor/src/kani_tokens.rs")},
            {"append": ("minicbor/src/lib.rs", "#[cfg(all(kani, feature = \"half\"))] mod kani_tokens;")},
        ],
        "module": "kani_tokens",
    },
    "decode_total": {
        "crate": "minicbor",
        "src": "units/kani/minicbor/decode_total.rs",
        "inject": [
            {"copy": ("units/kani/minicbor/decode_total.rs", "minicbor/src/kani_decode_total.rs")},
            {"append": ("minicbor/src/lib.rs", "#[cfg(kani)] mod kani_decode_total;")},
        ],
        "module": "kani_decode_total",
    },
    "skip_shapes": {
        "crate": "minicbor",
        "src": "units/kani/minicbor/skip_shapes.rs",
        "inject": [
            {"copy": ("units/kani/minicbor/skip_shapes.rs", "minicbor/src/kani_skip_shapes.rs")},
            {"append": ("minicbor/src/lib.rs", "#[cfg(kani)] mod kani_skip_shapes;")},
        ],
        "module": "kani_skip_shapes",
    },
    "error_class": {
        "crate": "minicbor",
        "src": "units/kani/minicbor/error_class.rs",
        "inject": [
            {"copy": ("units/kani/minicbor/error_class.rs", "minicbor/src/kani_error_class.rs")},
            {"append": ("minicbor/src/lib.rs", "#[cfg(kani)] mod kani_error_class;")},
        ],
        "module": "kani_error_class",
    },
    "sinks_bounded": {
        "crate": "minicbor",
        "src": "units/kani/minicbor/sinks_bounded.rs",
        "inject": [
            {"copy": ("units/kani/minicbor/sinks_bounded.rs", "minicbor/src/kani_sinks_bounded.rs")},
            {"append": ("minicbor/src/lib.rs", "#[cfg(all(kani, feature = \"alloc\"))] mod kani_sinks_bounded;")},
        ],
        "module": "kani_sinks_bounded",
    },
    "containers_bounded": {
        "crate": "minicbor",
        "src": "units/kani/minicbor/containers_bounded.rs",
        "inject": [
            {"copy": ("units/kani/minicbor/containers_bounded.rs", "minicbor/src/kani_containers_bounded.rs")},
            {"append": ("minicbor/src/lib.rs", "#[cfg(all(kani, feature = \"alloc\"))] mod kani_containers_bounded;")},
        ],
        "module": "kani_containers_bounded",
    },
    "roundtrip": {
        "crate": "minicbor",
        "src": "units/kani/minicbor/roundtrip.rs",
        "inject": [
            {"copy": ("units/kani/minicbor/roundtrip.rs", "minicbor/src/kani_roundtrip.rs")},
            {"append": ("minicbor/src/lib.rs", "#[cfg(kani)] mod kani_roundtrip;")},
        ],
        "module": "kani_roundtrip",
    },
}

# ---- registry fragments: units/kani/<dir>/registry.json  {"crates": {name: {...}}, "units": {name: {...}}}
import glob as _glob, json as _json
for _f in sorted(_glob.glob(os.path.join(VERIF, "units", "kani", "*", "registry.json"))):
    if os.environ.get("VERIF_NO_FRAGMENTS"):
        continue
    try:
        with open(_f) as _fh:
            _frag = _json.load(_fh)
    except (OSError, ValueError):
        continue
    KANI_CRATES.update(_frag.get("crates", {}))
    KANI_UNITS.update(_frag.get("units", {}))

def kani_harnesses():
    out = []
    for uname, u in KANI_UNITS.items():
        if not os.path.exists(os.path.join(VERIF, u["src"])):
            continue
        hs = kani_run.discover(os.path.join(VERIF, u["src"]), uname, u.get("module", ""))
        out.extend(hs)
    return out

# properties whose quantifier ranges over feature configurations: every harness serving them runs in each
PROP_CONFIGS = {
    "C06": {"quick": ["", "alloc"], "thorough": ["", "alloc"]},
    "C20": {"quick": ["", "std"], "thorough": ["", "alloc", "std"]},
}

# C06: the property itself is only decided by a bounded enumeration; the Verus obligations listed in its evidence are the
# contracts of the functions `skip` calls (iterators, accessors), not of `skip`
PROP_LEVEL = {}   # C06 was bounded-only (model_checking) until the Verus proof of `skip`

ALL_PROPS = ["C%02d" % i for i in range(1, 21)]
