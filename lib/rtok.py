"""Token-level scanner for Rust source: enough lexing to copy items verbatim.

Tokens keep their exact text and the whitespace that preceded them, so that an item can be
re-emitted byte-for-byte (minus comments).  No parsing beyond bracket matching.
"""
import re

class Tok:
    __slots__ = ("kind", "text", "ws", "line")
    def __init__(self, kind, text, ws, line):
        self.kind, self.text, self.ws, self.line = kind, text, ws, line
    def __repr__(self):
        return "Tok(%s,%r)" % (self.kind, self.text)

_ident = re.compile(r"[A-Za-z_][A-Za-z0-9_]*")
_num = re.compile(r"[0-9][0-9A-Za-z_]*(\.[0-9][0-9A-Za-z_]*)?")
_punct3 = ("<<=", ">>=", "...", "..=")
_punct2 = ("->", "=>", "::", "==", "!=", "<=", ">=", "&&", "||", "+=", "-=", "*=", "/=", "%=",
           "^=", "&=", "|=", "<<", ">>", "..")

class LexError(Exception):
    pass

def lex(src):
    """Return list of Tok. kinds: id, num, str, chr, life, punct, comment, doc"""
    toks = []
    i, n, line = 0, len(src), 1
    ws_start = 0
    while i < n:
        c = src[i]
        if c in " \t\r\n":
            if c == "\n":
                line += 1
            i += 1
            continue
        ws = src[ws_start:i]
        start = i
        kind = None
        if src.startswith("//", i):
            j = src.find("\n", i)
            if j < 0:
                j = n
            text = src[i:j]
            kind = "doc" if (text.startswith("///") and not text.startswith("////")) or text.startswith("//!") else "comment"
            i = j
        elif src.startswith("/*", i):
            depth, j = 1, i + 2
            while j < n and depth:
                if src.startswith("/*", j):
                    depth += 1; j += 2
                elif src.startswith("*/", j):
                    depth -= 1; j += 2
                else:
                    j += 1
            if depth:
                raise LexError("unterminated block comment at line %d" % line)
            text = src[i:j]
            kind = "comment"
            i = j
        elif c == '"' or (c in "br" and _is_str_start(src, i)):
            j = _scan_string(src, i)
            kind = "str"
            i = j
        elif c == "'":
            # char literal or lifetime
            m = re.match(r"'(\\x[0-9a-fA-F]{2}|\\u\{[0-9a-fA-F_]+\}|\\.|[^\\'])'", src[i:i+14])
            if m:
                kind = "chr"; i += m.end()
            else:
                m = _ident.match(src, i + 1)
                if not m:
                    raise LexError("bad quote at line %d" % line)
                kind = "life"; i = m.end()
        elif c == "b" and src.startswith("b'", i):
            m = re.match(r"b'(\\x[0-9a-fA-F]{2}|\\.|[^\\'])'", src[i:i+8])
            if not m:
                raise LexError("bad byte literal at line %d" % line)
            kind = "chr"; i += m.end()
        elif c.isalpha() or c == "_":
            m = _ident.match(src, i)
            kind = "id"; i = m.end()
            # raw identifiers r#foo
            if src[start:i] == "r" and src.startswith("#", i) and _ident.match(src, i + 1):
                i = _ident.match(src, i + 1).end()
        elif c.isdigit():
            # numbers; avoid swallowing `0..` or `1.method`
            m = re.match(r"[0-9][0-9A-Za-z_]*", src[i:])
            j = i + m.end()
            if j < n and src[j] == "." and j + 1 < n and src[j+1].isdigit():
                m2 = re.match(r"\.[0-9][0-9A-Za-z_]*", src[j:])
                j += m2.end()
            kind = "num"; i = j
        else:
            for p in _punct3:
                if src.startswith(p, i):
                    i += 3; break
            else:
                for p in _punct2:
                    if src.startswith(p, i):
                        i += 2; break
                else:
                    i += 1
            kind = "punct"
        text = src[start:i]
        toks.append(Tok(kind, text, ws, line))
        line += text.count("\n")
        ws_start = i
    return toks

def _is_str_start(src, i):
    m = re.match(r"(b?r#*\"|b\")", src[i:i+12])
    return bool(m)

def _scan_string(src, i):
    m = re.match(r"b?r(#*)\"", src[i:i+12])
    if m:
        hashes = m.group(1)
        end = src.find('"' + hashes, i + m.end())
        if end < 0:
            raise LexError("unterminated raw string")
        return end + 1 + len(hashes)
    j = i + (2 if src[i] == "b" else 1)
    while j < len(src):
        if src[j] == "\\":
            j += 2
        elif src[j] == '"':
            return j + 1
        else:
            j += 1
    raise LexError("unterminated string")

OPEN = {"(": ")", "[": "]", "{": "}"}
CLOSE = {")": "(", "]": "[", "}": "{"}

def code(toks):
    """strip comments and doc comments"""
    return [t for t in toks if t.kind not in ("comment", "doc")]

def match_close(toks, i):
    """toks[i] is an opening bracket; return index of its matching close."""
    assert toks[i].text in OPEN, toks[i]
    depth = 0
    for j in range(i, len(toks)):
        t = toks[j]
        if t.kind != "punct":
            continue
        if t.text in OPEN:
            depth += 1
        elif t.text in CLOSE:
            depth -= 1
            if depth == 0:
                return j
    raise LexError("unbalanced bracket from line %d" % toks[i].line)

def texts(toks):
    return [t.text for t in toks]

def emit(toks):
    return "".join(t.ws + t.text for t in toks)

def find_seq(hay, needle, start=0, end=None):
    """indices where the text sequence `needle` occurs in token list hay[start:end]"""
    out = []
    if not needle:
        return out
    end = len(hay) if end is None else end
    ht = [t.text for t in hay]
    k = len(needle)
    for i in range(start, end - k + 1):
        if ht[i] == needle[0] and ht[i:i+k] == needle:
            out.append(i)
    return out

def split_glued(toks_text):
    """normalise a token text list so `>>`/`>` `>` and `||`/`|` `|` compare equal"""
    out = []
    for t in toks_text:
        if t in (">>", "||", "&&", "<<"):
            out.extend([t[0], t[1]])
        elif t == "..=" or t == "...":
            out.append(t)
        else:
            out.append(t)
    return out
