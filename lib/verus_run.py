"""Run one Verus unit: expand from /repo, self-check the extraction, verify, map results to items."""
import json, os, re, subprocess, time, shutil
from . import vx

VERUS = shutil.which("verus") or "/usr/local/bin/verus"

class UnitResult:
    def __init__(self, unit):
        self.unit = unit
        self.status = "ok"          # ok | failed | undecided
        self.reason = ""            # for undecided
        self.functions = []         # [{name, success, ms, rlimit}]
        self.failures = []          # [{function, message, clause, clause_line, exit_text, props, file, item, rendered}]
        self.canaries_ok = True
        self.canaries = []
        self.items = []             # extraction items
        self.extract_log = []
        self.trusted = []           # scan of assume/external_body/assume_specification
        self.verified = 0
        self.errors = 0
        self.smt_ms = 0
        self.wall_s = 0.0
        self.gen_path = None
        self.cmd = ""
        self.raw = ""

def scan_trusted(gen_text):
    """mechanical scan for everything that is assumed rather than proved"""
    out = []
    lines = gen_text.split("\n")
    for i, ln in enumerate(lines):
        s = ln.strip()
        if s.startswith("//"):
            continue
        if "assume_specification" in s:
            m = re.search(r"\[(.*?)\]", s)
            out.append("assume_specification %s" % (m.group(1) if m else s[:80]))
        elif "external_body" in s:
            # name the next fn/struct
            for j in range(i, min(i + 6, len(lines))):
                m = re.search(r"\b(fn|struct)\s+([A-Za-z_0-9]+)", lines[j])
                if m:
                    out.append("external_body %s %s" % (m.group(1), m.group(2)))
                    break
        elif re.search(r"\baxiom fn\b", s):
            m = re.search(r"axiom fn\s+([A-Za-z_0-9]+)", s)
            out.append("axiom %s" % (m.group(1) if m else "?"))
        elif re.search(r"\bassume\s*\(", s) or re.search(r"\badmit\s*\(", s):
            out.append("assume/admit at generated line %d: %s" % (i + 1, s[:80]))
        elif "uninterp spec fn" in s:
            m = re.search(r"uninterp spec fn\s+([A-Za-z_0-9]+)", s)
            out.append("uninterpreted %s" % (m.group(1) if m else "?"))
        elif "external_type_specification" in s:
            out.append("external_type_specification (generated line %d)" % (i + 1))
    # de-duplicate, keep order
    seen, res = set(), []
    for o in out:
        if o not in seen:
            seen.add(o); res.append(o)
    return res

def run_unit(unit_path, repo, verif, workdir, features=None, rlimit=None, timeout=600, tag=""):
    res = UnitResult(os.path.basename(unit_path) + (("[" + tag + "]") if tag else ""))
    t0 = time.time()
    if features is not None:
        ex = vx.Expander(repo, verif, features, force_features=True)
    else:
        ex = vx.Expander(repo, verif)
    try:
        ex.expand(unit_path)
    except (vx.VxError, vx.rtok.LexError, OSError, IndexError, TypeError, AttributeError) as e:
        res.status = "undecided"
        res.reason = "extraction: %s" % e
        res.wall_s = time.time() - t0
        return res
    text = ex.text()
    res.items = ex.items
    res.extract_log = ex.log
    probs, n = vx.verify_generated(text, repo)
    if probs:
        res.status = "undecided"
        res.reason = "extraction self-check: " + "; ".join(probs[:3])
        res.wall_s = time.time() - t0
        return res
    res.trusted = scan_trusted(text)
    os.makedirs(workdir, exist_ok=True)
    base = os.path.basename(unit_path).replace(".vx", "") + (("_" + tag) if tag else "")
    gen = os.path.join(workdir, base + ".rs")
    with open(gen, "w") as f:
        f.write(text)
    res.gen_path = gen
    cmd = [VERUS, gen, "--output-json", "--time", "--error-format=json", "--multiple-errors", "20"]
    if rlimit:
        cmd += ["--rlimit", str(rlimit)]
    res.cmd = " ".join(cmd)
    try:
        p = subprocess.run(cmd, cwd=workdir, capture_output=True, text=True, timeout=timeout)
    except subprocess.TimeoutExpired:
        res.status = "undecided"
        res.reason = "verus timeout after %ds" % timeout
        res.wall_s = time.time() - t0
        return res
    res.raw = p.stderr
    # stdout: JSON
    try:
        js = json.loads(p.stdout)
    except Exception:
        js = None
    diags = []
    for ln in p.stderr.split("\n"):
        ln = ln.strip()
        if ln.startswith("{"):
            try:
                diags.append(json.loads(ln))
            except Exception:
                pass
    ranges = vx.item_line_ranges(text)
    gen_lines = text.split("\n")
    item_by_key = {}
    for it in ex.items:
        item_by_key[(it["file"], it["kind"], it["name"])] = it

    def locate(line):
        for (s, e, f, k, nme) in ranges:
            if s <= line <= e:
                return item_by_key.get((f, k, nme), {"file": f, "kind": k, "name": nme, "props": []})
        return None

    def enclosing_fn(line):
        # nearest preceding `fn name` in generated text (for spec-only items such as lemmas / canaries)
        for i in range(line - 1, -1, -1):
            m = re.search(r"\bfn\s+([A-Za-z_0-9]+)", gen_lines[i])
            if m:
                return m.group(1)
        return "?"

    hard_errors = []
    for d in diags:
        if d.get("level") != "error":
            continue
        msg = d.get("message", "")
        if msg.startswith("aborting due to"):
            continue
        spans = d.get("spans", [])
        prim = [s for s in spans if s.get("is_primary")]
        other = [s for s in spans if not s.get("is_primary")]
        line = prim[0]["line_start"] if prim else (spans[0]["line_start"] if spans else 0)
        semantic = any(k in msg for k in (
            "postcondition not satisfied", "precondition not satisfied", "assertion failed",
            "invariant not satisfied", "possible arithmetic underflow/overflow", "possible division by zero",
            "index out of bounds", "decreases not satisfied", "loop invariant", "recommendation not met",
            "possible bit shift underflow/overflow", "unreachable", "cannot show"))
        resource = any(k in msg for k in ("Resource limit", "rlimit", "timed out", "timeout"))
        where_line = other[0]["line_start"] if other else line
        it = locate(where_line) or locate(line)
        fn = it["name"] if it and it.get("kind") == "fn" else enclosing_fn(where_line if where_line else line)
        clause_text = ""
        if prim:
            clause_text = " ".join(t["text"].strip() for t in prim[0].get("text", []))[:400]
        exit_text = ""
        if other:
            exit_text = " ".join(t["text"].strip() for t in other[0].get("text", []))[:200]
        # clause-level property tags: `// [C04]` or `// [C02,C04]` on the clause's first line
        ctag = re.search(r"//\s*\[((?:C\d+,?\s*)+)\]", gen_lines[line - 1] if 0 < line <= len(gen_lines) else "")
        # an explicit clause tag `// [C04]` restricts the clause to those properties; otherwise a failing obligation counts
        # for every property the unit serves (callers are verified against the contract, so a broken contract breaks them all)
        props = [x.strip() for x in ctag.group(1).split(",")] if ctag else []
        rec = {"function": fn, "message": msg, "clause": clause_text, "clause_line": line, "exit": exit_text,
               "props": props, "file": it["file"] if it else None, "semantic": semantic,
               "rendered": d.get("rendered", "")[:3000]}
        if fn.startswith("vx_canary"):
            res.canaries.append(rec)
        elif semantic:
            res.failures.append(rec)
        elif resource:
            res.status = "undecided"
            res.reason = "resource limit in %s: %s" % (fn, msg)
        else:
            hard_errors.append(rec)
    if js:
        vr = js.get("verification-results", {})
        res.verified = vr.get("verified", 0)
        res.errors = vr.get("errors", 0)
        tm = js.get("times-ms", {})
        try:
            res.smt_ms = tm.get("smt", {}).get("total", 0) if isinstance(tm.get("smt"), dict) else 0
        except Exception:
            res.smt_ms = 0
        for mod in (js.get("func-details") or {}).values() if isinstance(js.get("func-details"), dict) else []:
            pass
        try:
            mods = js["times-ms"]["smt"]["smt-run-module-times"]
            for m in mods:
                for fb in m.get("function-breakdown", []):
                    res.functions.append({"name": fb["function"].split("::", 1)[-1], "success": fb["success"],
                                          "ms": fb["time"], "rlimit": fb["rlimit"]})
        except Exception:
            pass
    if hard_errors and res.status == "ok":
        res.status = "undecided"
        res.reason = "verus rejected the unit: " + hard_errors[0]["message"][:300]
        res.hard_errors = hard_errors
    elif js is None and res.status == "ok":
        res.status = "undecided"
        res.reason = "no JSON from verus (rc=%s): %s" % (p.returncode, p.stderr[-300:])
    # canaries: every function named vx_canary_* must have FAILED
    want_canaries = set(re.findall(r"fn\s+(vx_canary_[A-Za-z_0-9]+)", text))
    got = set(c["function"] for c in res.canaries)
    if want_canaries - got and res.status == "ok":
        res.canaries_ok = False
        res.status = "undecided"
        res.reason = "vacuity canary verified (contradictory assumptions?): %s" % sorted(want_canaries - got)
    res.n_canaries = len(want_canaries)
    if res.failures and res.status == "ok":
        res.status = "failed"
    res.wall_s = time.time() - t0
    return res
