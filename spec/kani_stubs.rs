// Stubs used by Kani harnesses in `alloc` / `std` builds.  In those builds decode::Error carries a String
// and `with_message` / `message` format into it; the String machinery dominates CBMC's cost (minutes ->
// seconds) and is irrelevant to every contract (message text is not part of any property).  The stubs keep
// the error class and drop the text.  Listed in the evidence as trusted.
#![allow(dead_code)]
#[cfg(feature = "alloc")]
pub fn with_message<T: core::fmt::Display>(e: crate::decode::Error, _m: T) -> crate::decode::Error { e }
#[cfg(feature = "alloc")]
pub fn message<T: core::fmt::Display>(_m: T) -> crate::decode::Error { crate::decode::Error::kani_message_class() }

// ---- `Decoder::skip` replaced by an executable rendering of its CONTRACT (C06): advance to the end of
// the item at the cursor, or fail on a truncated item.  The real body is pathological for CBMC (nested
// loops unwound at every call site) and is examined only by C06's own unit.  This stub covers the item
// shapes the harnesses that use it can reach: heads without content (integers, simple values, floats,
// break), definite-length strings and empty definite containers.  Anything else fails the harness (assert) rather than being assumed
// away, so a harness can never pass by leaving the stub's domain.
pub fn skip_leaf<'b>(d: &mut crate::decode::Decoder<'b>) -> Result<(), crate::decode::Error> where 'b: 'b {
    use crate::kani_refspec::{head, Head};
    let buf = d.input();
    let p = d.position();
    if p > buf.len() { return Err(crate::decode::Error::end_of_input()) }
    match head(&buf[p ..]) {
        Head::Truncated => Err(crate::decode::Error::end_of_input()),
        Head::Reserved { .. } => Err(crate::decode::Error::type_mismatch(crate::data::Type::Unknown(buf[p]))),
        Head::Ok { major, info, arg, hlen } => match major {
            0 | 1 => { d.set_position(p + hlen); Ok(()) }
            7 => {
                // simple values, floats (argument bytes are the value), break
                d.set_position(p + hlen); Ok(())
            }
            2 | 3 if info != 31 => {
                let avail = (buf.len() - p - hlen) as u64;
                if arg > avail { return Err(crate::decode::Error::end_of_input()) }
                d.set_position(p + hlen + arg as usize); Ok(())
            }
            4 | 5 if info != 31 && arg == 0 => { d.set_position(p + hlen); Ok(()) }      // empty definite container
            _ => { assert!(false, "skip stub: nested item outside the stub's domain"); Err(crate::decode::Error::end_of_input()) }
        }
    }
}

// ---- `core::str::from_utf8` replaced by a nondeterministic answer, for harnesses whose contract does not
// depend on text payloads (they return / assume away string heads).  The real validator's loops are
// otherwise unwound on every path that can reach `Decoder::str`, which is every `match` on a symbolic
// initial byte.  Harnesses about text (c11_strings_text, c04_*) use the real function.
pub fn from_utf8_any(v: &[u8]) -> Result<&str, core::str::Utf8Error> {
    if kani::any() {
        // SAFETY (model only): the harnesses using this stub never inspect the text
        Ok(unsafe { core::str::from_utf8_unchecked(v) })
    } else {
        const BAD: [u8; 1] = [0xff];
        match core::str::from_utf8(&BAD) { Err(e) => Err(e), Ok(_) => unreachable!() }
    }
}

// ---- over-approximation of `Decoder::skip`'s contract for the no-panic / position harnesses (C02): either an
// error, or success with the cursor moved forward to an arbitrary position inside the input.  Every behaviour the
// real function can have on any item is included, so "no panic, position <= len" proved against this stub holds
// for the real one (given C06's contract).
pub fn skip_any<'b>(d: &mut crate::decode::Decoder<'b>) -> Result<(), crate::decode::Error> where 'b: 'b {
    let len = d.input().len();
    let p = d.position();
    if p >= len || kani::any() { return Err(crate::decode::Error::end_of_input()) }
    let q: usize = kani::any();
    kani::assume(p < q && q <= len);
    d.set_position(q);
    Ok(())
}
