// Reference rendering of RFC 8949 section 3 for Kani harnesses (plain Rust, loop-free).
// Written from the RFC text and the property statements, independently of the Verus rendering in
// common.vspec and of the code under verification.  Injected into the scratch copy as a module.
#![allow(dead_code)]

/// Outcome of reading one head at the start of `buf`.
#[derive(Clone, Copy, PartialEq, Eq)]
pub enum Head {
    /// complete head: major type (0..=7), additional information, argument, head length
    Ok { major: u8, info: u8, arg: u64, hlen: usize },
    /// the buffer ends before the head is complete
    Truncated,
    /// additional information 28..=30 (reserved) - not well-formed
    Reserved { major: u8, info: u8 },
}

#[inline(always)]
pub fn be(buf: &[u8], at: usize, n: usize) -> u64 {
    // big-endian value of n in {1,2,4,8} bytes, written without a loop so that harnesses stay loop-free
    let b = |i: usize| buf[at + i] as u64;
    match n {
        1 => b(0),
        2 => (b(0) << 8) | b(1),
        4 => (b(0) << 24) | (b(1) << 16) | (b(2) << 8) | b(3),
        _ => (b(0) << 56) | (b(1) << 48) | (b(2) << 40) | (b(3) << 32) | (b(4) << 24) | (b(5) << 16) | (b(6) << 8) | b(7),
    }
}

pub fn head(buf: &[u8]) -> Head {
    if buf.is_empty() {
        return Head::Truncated;
    }
    let ib = buf[0];
    let major = ib >> 5;
    let info = ib & 0x1f;
    let w: usize = match info {
        0..=23 => 0,
        24 => 1,
        25 => 2,
        26 => 4,
        27 => 8,
        31 => return Head::Ok { major, info, arg: 0, hlen: 1 },
        _ => return Head::Reserved { major, info },
    };
    if buf.len() < 1 + w {
        return Head::Truncated;
    }
    let arg = if w == 0 { info as u64 } else { be(buf, 1, w) };
    Head::Ok { major, info, arg, hlen: 1 + w }
}

/// Integer items (major type 0 / 1): the value the data model assigns, as an i128.
#[derive(Clone, Copy, PartialEq, Eq)]
pub enum IntItem {
    Value { v: i128, hlen: usize },
    Truncated,
    NotInt,
}

pub fn int_item(buf: &[u8]) -> IntItem {
    match head(buf) {
        Head::Truncated => {
            // only a truncation of an *integer* when the initial byte says so (or nothing is there)
            if buf.is_empty() || (buf[0] >> 5) <= 1 && (buf[0] & 0x1f) <= 27 { IntItem::Truncated } else { IntItem::NotInt }
        }
        Head::Reserved { .. } => IntItem::NotInt,
        Head::Ok { major, info, arg, hlen } => {
            if info == 31 { return IntItem::NotInt }
            match major {
                0 => IntItem::Value { v: arg as i128, hlen },
                1 => IntItem::Value { v: -1 - (arg as i128), hlen },
                _ => IntItem::NotInt,
            }
        }
    }
}

/// RFC 8949 4.2.1: preferred (shortest) head for (major, n); returns (bytes, length)
pub fn pref_head(major: u8, n: u64) -> ([u8; 9], usize) {
    let m = major << 5;
    let mut o = [0u8; 9];
    if n < 24 {
        o[0] = m | n as u8; (o, 1)
    } else if n <= 0xff {
        o[0] = m | 24; o[1] = n as u8; (o, 2)
    } else if n <= 0xffff {
        o[0] = m | 25; o[1] = (n >> 8) as u8; o[2] = n as u8; (o, 3)
    } else if n <= 0xffff_ffff {
        o[0] = m | 26; o[1] = (n >> 24) as u8; o[2] = (n >> 16) as u8; o[3] = (n >> 8) as u8; o[4] = n as u8; (o, 5)
    } else {
        o[0] = m | 27;
        o[1] = (n >> 56) as u8; o[2] = (n >> 48) as u8; o[3] = (n >> 40) as u8; o[4] = (n >> 32) as u8;
        o[5] = (n >> 24) as u8; o[6] = (n >> 16) as u8; o[7] = (n >> 8) as u8; o[8] = n as u8; (o, 9)
    }
}

/// preferred encoding of an integer in [-2^64, 2^64-1]
pub fn pref_int(v: i128) -> ([u8; 9], usize) {
    if v >= 0 { pref_head(0, v as u64) } else { pref_head(1, (-1 - v) as u64) }
}

pub fn prefix_eq(a: &[u8], b: &[u8; 9], n: usize) -> bool {
    // a[..n] == b[..n], loop-free for n <= 9
    if a.len() < n { return false }
    (n < 1 || a[0] == b[0]) && (n < 2 || a[1] == b[1]) && (n < 3 || a[2] == b[2]) && (n < 4 || a[3] == b[3])
        && (n < 5 || a[4] == b[4]) && (n < 6 || a[5] == b[5]) && (n < 7 || a[6] == b[6]) && (n < 8 || a[7] == b[7])
        && (n < 9 || a[8] == b[8])
}

/// IEEE 754 binary16 -> the real value it denotes, computed in f64 by sign/exponent/mantissa
/// arithmetic (exact: every half value is representable in f32 and f64). NaN handled by caller.
pub fn half_value_f64(h: u16) -> f64 {
    let s = if h >> 15 == 1 { -1.0f64 } else { 1.0f64 };
    let e = ((h >> 10) & 0x1f) as i32;
    let m = (h & 0x3ff) as f64;
    if e == 0 {
        s * m * (1.0 / 16777216.0)            // m * 2^-24
    } else if e == 31 {
        if h & 0x3ff == 0 { s * f64::INFINITY } else { f64::NAN }
    } else {
        // (1024 + m) * 2^(e - 25), the scale built from exact powers of two
        s * (1024.0 + m) * pow2(e - 25)
    }
}

pub fn pow2(k: i32) -> f64 {
    // exact 2^k for -1022 <= k <= 1023 via the bit pattern
    f64::from_bits(((k + 1023) as u64) << 52)
}

/// A truncated integer head (major 0/1, some but not all argument bytes present): the smallest
/// argument any completion can have (missing bytes = 0).  None if `buf` is not such a prefix.
pub fn trunc_int_min_arg(buf: &[u8]) -> Option<(u8, u64)> {
    if buf.is_empty() { return None }
    let major = buf[0] >> 5;
    let w: usize = match buf[0] & 0x1f { 24 => 1, 25 => 2, 26 => 4, 27 => 8, _ => return None };
    if major > 1 || buf.len() >= 1 + w { return None }
    let k = buf.len() - 1;
    let mut v: u64 = 0;
    macro_rules! byte { ($i:expr) => { if k > $i { v |= (buf[1 + $i] as u64) << (8 * (w - 1 - $i)); } } }
    byte!(0); byte!(1); byte!(2); byte!(3); byte!(4); byte!(5); byte!(6);
    Some((major, v))
}

/// does some completion of this truncated integer head denote a value in [min, max]?
pub fn trunc_int_completable(buf: &[u8], min: i128, max: i128) -> bool {
    if buf.is_empty() { return true }
    match trunc_int_min_arg(buf) {
        None => false,
        Some((0, a)) => (a as i128) <= max,
        Some((_, a)) => -1 - (a as i128) >= min,
    }
}
