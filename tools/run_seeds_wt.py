#!/usr/bin/env python3
"""Run the check(s) of each named seeded change against its own scratch worktree of /repo (VERIF_REPO) with a scratch
   evidence directory (VERIF_EVIDENCE_DIR), several at a time; /repo and /verif/evidence are not touched.
   Usage: run_seeds_wt.py <log> <jobs-per-check> <parallel> <seed-id> ...   (equivalent to apply-to-/repo, check, revert)"""
import json, os, subprocess, sys, time, shutil
from concurrent.futures import ThreadPoolExecutor
V = "/verif"; ROOT = "/var/tmp/s4w"
log, jobs, par = sys.argv[1], sys.argv[2], int(sys.argv[3]); ids = sys.argv[4:]
os.makedirs(ROOT, exist_ok=True)
def one(sid):
    d = os.path.join(V, "seeded", sid); meta = json.load(open(d + "/meta.json"))
    wt = os.path.join(ROOT, sid); out = []
    subprocess.run("git -C /repo worktree add -q --detach %s HEAD" % wt, shell=True, check=True)
    try:
        shutil.copy("/repo/Cargo.lock", wt + "/Cargo.lock")   # untracked in /repo, needed offline
        a = subprocess.run("git -C %s apply %s/patch.diff" % (wt, d), shell=True, capture_output=True, text=True)
        if a.returncode != 0: return ["%s PATCH DOES NOT APPLY %s" % (sid, a.stderr[:200])]
        for p in meta.get("check_props") or [meta["property"]]:
            t0 = time.time()
            e = dict(os.environ, VERIF_REPO=wt, VERIF_EVIDENCE_DIR=os.path.join(ROOT, "ev_" + sid), VERIF_SCRATCH=ROOT)
            r = subprocess.run(["./check", p, "--tier", "quick", "--jobs", jobs], cwd=V, capture_output=True, text=True, env=e)
            lines = [l for l in r.stdout.split("\n") if l.startswith(("VIOLATION", "UNDECIDED", "OK"))] + [l[:60] for l in r.stdout.split("\n") if l.startswith("KNOWN")]
            s = "%-8s %-4s rc=%d %4.0fs  %s" % (sid, p, r.returncode, time.time() - t0, " | ".join(lines)[:600])
            print(s, flush=True); out.append(s)
            open(os.path.join(ROOT, "%s_%s.out" % (sid, p)), "w").write(r.stdout + r.stderr)
    finally:
        subprocess.run("git -C /repo worktree remove --force %s" % wt, shell=True)
        shutil.rmtree(os.path.join(ROOT, "ev_" + sid), ignore_errors=True)
    return out
with ThreadPoolExecutor(par) as ex:
    res = list(ex.map(one, ids))
open(log, "a").write("\n".join(l for r in res for l in r) + "\n")
