#!/usr/bin/env python3
"""Apply each kept mutation to /repo, run the check(s) of its property, undo.  Usage: run_seeds.py [id-prefix ...] [--tier t]"""
import json, os, subprocess, sys, time
V = "/verif"
args = [a for a in sys.argv[1:] if not a.startswith("--")]
tier = "quick"
for a in sys.argv[1:]:
    if a.startswith("--tier="): tier = a.split("=")[1]
import shutil, tempfile
_ev_backup = tempfile.mkdtemp(prefix="ev_backup_", dir="/var/tmp")
shutil.copytree(V + "/evidence", _ev_backup + "/evidence")
res = {}
for sid in sorted(os.listdir(V + "/seeded")):
    if args and not any(sid.startswith(a) for a in args): continue
    d = os.path.join(V, "seeded", sid)
    meta = json.load(open(d + "/meta.json"))
    props = meta.get("check_props") or [meta["property"]]
    assert subprocess.run("git -C /repo status --porcelain", shell=True, capture_output=True, text=True).stdout.strip() == "", "/repo not clean"
    a = subprocess.run("git -C /repo apply %s/patch.diff" % d, shell=True, capture_output=True, text=True)
    if a.returncode != 0:
        print(sid, "PATCH DOES NOT APPLY", a.stderr[:200]); continue
    try:
        for p in props:
            t0 = time.time()
            r = subprocess.run(["./check", p, "--tier", tier], cwd=V, capture_output=True, text=True)
            lines = [l for l in r.stdout.split("\n") if l.startswith(("VIOLATION", "UNDECIDED", "OK"))] + [l[:60] for l in r.stdout.split("\n") if l.startswith("KNOWN")]
            print("%-8s %-4s rc=%d %4.0fs  %s" % (sid, p, r.returncode, time.time() - t0, " | ".join(lines)[:300]), flush=True)
            res[sid + ":" + p] = {"rc": r.returncode, "lines": lines}
    finally:
        subprocess.run("git -C /repo checkout -- .", shell=True)
json.dump(res, open("/tmp/seed_out/run_seeds_last.json", "w"), indent=1)
# evidence files are written by every run: put the clean-tree ones back
shutil.rmtree(V + "/evidence"); shutil.copytree(_ev_backup + "/evidence", V + "/evidence"); shutil.rmtree(_ev_backup)
