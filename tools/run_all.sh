#!/bin/sh
# run every claimed check (quick tier by default) on the current tree and summarise
cd "$(dirname "$0")/.."
TIER=${1:-quick}
for p in $(python3 -c "import json; print(' '.join(c['property_id'] for c in json.load(open('MANIFEST.json'))['checks']))"); do
  s=$(date +%s); out=$(./check $p --tier $TIER 2>&1); rc=$?; e=$(date +%s)
  echo "$p rc=$rc $((e-s))s $(echo "$out" | grep -c '^KNOWN-FINDING') known | $(echo "$out" | grep '^OK\|^VIOLATION\|^UNDECIDED' | head -3 | cut -c1-200 | tr '\n' '|')"
done
