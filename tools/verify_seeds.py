#!/usr/bin/env python3
"""Confirm sub-agent mutations independently: in a scratch worktree of /repo
   (1) demo passes on the clean tree, (2) with the patch the pinned suite still passes,
   (3) with the patch the demo fails.  Usage: verify_seeds.py <table.json> <out.json>
   table: [{"id": "C03_A", "dir": "/tmp/seed_out/C03/A", "demo_dest": "minicbor-tests/tests/demo.rs", "demo_cmd": "cargo test ..."}]"""
import json, os, subprocess, sys, shutil, re
WT = "/tmp/vseed_wt"
def sh(cmd, cwd=WT, timeout=1800):
    p = subprocess.run(cmd, shell=True, cwd=cwd, capture_output=True, text=True, timeout=timeout)
    return p.returncode, (p.stdout + p.stderr)
def clean():
    sh("git checkout -q -- . && git clean -fdq")
def main():
    table = json.load(open(sys.argv[1])); outp = sys.argv[2]
    if not os.path.isdir(WT):
        subprocess.run("git -C /repo worktree add -q --detach %s HEAD" % WT, shell=True, check=True)
    else:
        sh("git checkout -q --detach %s" % subprocess.run("git -C /repo rev-parse HEAD", shell=True, capture_output=True, text=True).stdout.strip())
    res = []
    for t in table:
        r = {"id": t["id"]}
        clean()
        os.makedirs(os.path.dirname(os.path.join(WT, t["demo_dest"])), exist_ok=True)
        shutil.copy(os.path.join(t["dir"], "demo.rs"), os.path.join(WT, t["demo_dest"]))
        rc, out = sh(t["demo_cmd"]); r["demo_clean_rc"] = rc
        r["demo_clean_tail"] = out[-300:]
        rc, out = sh("git apply %s" % os.path.join(t["dir"], "patch.diff")); r["apply_rc"] = rc
        rc, out = sh(t["demo_cmd"]); r["demo_mut_rc"] = rc; r["demo_mut_tail"] = out[-600:]
        os.remove(os.path.join(WT, t["demo_dest"]))
        rc, out = sh("cargo test --workspace --no-fail-fast --offline 2>&1"); r["suite_mut_rc"] = rc
        passed = sum(int(x) for x in re.findall(r"test result: ok\. (\d+) passed", out))
        failed = sum(int(x) for x in re.findall(r"(\d+) failed", out))
        r["suite_passed"] = passed; r["suite_failed"] = failed
        r["confirmed"] = (r["demo_clean_rc"] == 0 and r["apply_rc"] == 0 and r["demo_mut_rc"] != 0 and r["suite_mut_rc"] == 0)
        res.append(r)
        json.dump(res, open(outp, "w"), indent=1)
        print(t["id"], "confirmed" if r["confirmed"] else "NOT CONFIRMED", r["suite_passed"], r["suite_failed"], flush=True)
    clean()
main()
