#!/usr/bin/env python3
"""Generate units/kani/minicbor/skip_shapes.rs: every item-tree shape up to a node bound x head widths,
control bytes concrete, ignored bytes symbolic (C06, bounded enumeration).

A shape is a tree over: leaf kinds {scalar-with-argument, definite text, chunked (indefinite) bytes},
containers {definite array (0..2 elements), indefinite array (0..2), definite map (0..1 pairs),
indefinite map (0..1 pairs), tag (1 child)}.  Node bound = number of containers/tags + leaves.
Head widths: every container / tag head is emitted at each of the 5 argument widths (preferred and widened)
in the width sweep; nested shapes use the preferred width plus one widened variant chosen round-robin.
"""
import itertools, sys

LEAVES = ["S", "T", "B"]     # scalar `18 xx`, text `61 a`, chunked bytes `5f 41 xx ff`

def leaf_bytes(kind, sym):
    if kind == "S": return [0x18, sym()]
    if kind == "T": return [0x61, sym(ascii=True)]
    if kind == "B": return [0x5f, 0x41, sym(), 0xff]

def head(major, n, width):
    m = major << 5
    if width == 0:
        assert n < 24; return [m | n]
    if width == 1: return [m | 24, n]
    if width == 2: return [m | 25, 0, n]
    if width == 4: return [m | 26, 0, 0, 0, n]
    return [m | 27, 0, 0, 0, 0, 0, 0, 0, n]

# tree: ("leaf", kind) | ("arr", [children]) | ("iarr", [children]) | ("map", [children (even)]) | ("imap", [children]) | ("tag", child)
def trees(nodes, leaves):
    """all trees with exactly `nodes` nodes"""
    if nodes <= 0: return
    if nodes == 1:
        for k in leaves: yield ("leaf", k)
        for c in ("arr", "iarr", "map", "imap"): yield (c, [])
        return
    # tag
    for t in trees(nodes - 1, leaves): yield ("tag", t)
    # containers with 1 or 2 children (maps: exactly 2 children = 1 pair)
    for t in trees(nodes - 1, leaves):
        yield ("arr", [t]); yield ("iarr", [t])
    for a in range(1, nodes - 1):
        b = nodes - 1 - a
        for t1 in trees(a, leaves):
            for t2 in trees(b, leaves):
                yield ("arr", [t1, t2]); yield ("iarr", [t1, t2]); yield ("map", [t1, t2]); yield ("imap", [t1, t2])

def emit(tree, sym, width_of, off=0, bounds=None):
    """bytes of the tree; `bounds` collects the offsets at which an item (or a break) begins: a prefix cut there
    ends the input on an item boundary inside a container"""
    if bounds is None: bounds = set()
    bounds.add(off)
    k = tree[0]
    if k == "leaf":
        bs = leaf_bytes(tree[1], sym)
        if tree[1] == "B":
            bounds.add(off + 1); bounds.add(off + 3)       # chunk start, break
        return bs
    if k == "tag":
        h = head(6, 7, width_of())
        return h + emit(tree[1], sym, width_of, off + len(h), bounds)
    kids = tree[1]
    if k == "arr": h = head(4, len(kids), width_of())
    elif k == "map": h = head(5, len(kids) // 2, width_of())
    elif k == "iarr": h = [0x9f]
    else: h = [0xbf]
    body = []
    for c in kids:
        body += emit(c, sym, width_of, off + len(h) + len(body), bounds)
    if k in ("iarr", "imap"):
        bounds.add(off + len(h) + len(body))
        body = body + [0xff]
    return h + body

def indef_in_def(tree, inside_def=False):
    k = tree[0]
    if k == "leaf": return False
    if k == "tag": return indef_in_def(tree[1], inside_def)
    if k in ("iarr", "imap"):
        if inside_def: return True
        return any(indef_in_def(c, inside_def) for c in tree[1])
    return any(indef_in_def(c, True) for c in tree[1])

def show(tree):
    k = tree[0]
    if k == "leaf": return tree[1]
    if k == "tag": return "G(" + show(tree[1]) + ")"
    nm = {"arr": "A", "iarr": "Ai", "map": "M", "imap": "Mi"}[k]
    return nm + "[" + ",".join(show(c) for c in tree[1]) + "]"

class Sym:
    def __init__(self): self.n = 0; self.decls = []
    def __call__(self, ascii=False):
        v = "s%d" % self.n; self.n += 1
        self.decls.append((v, ascii)); return v

def case_text(tree, widths, cuts_mode):
    sym = Sym()
    it = iter(widths)
    last = [0]
    def width_of():
        try: last[0] = next(it)
        except StopIteration: pass
        return last[0]
    bounds = set()
    bs = emit(tree, sym, width_of, 0, bounds)
    end = len(bs)
    junk = [sym(), sym()]
    allb = bs + junk
    decl = "".join("let %s: u8 = kani::any();%s " % (v, (" kani::assume(%s < 0x80);" % v) if a else "") for v, a in sym.decls)
    arr = ", ".join(("0x%02x" % b) if isinstance(b, int) else b for b in allb)
    nested = "true" if indef_in_def(tree) else "false"
    mid = [c for c in range(1, end) if c not in bounds]          # cut inside a head or a payload
    bnd = [c for c in range(1, end) if c in bounds]              # cut on an item boundary
    if cuts_mode == "all": cuts = mid
    elif cuts_mode == "some": cuts = sorted(set(mid[-1:] + mid[:1]))
    elif cuts_mode == "boundary": cuts = bnd
    else: cuts = []
    cut_txt = " ".join("cut(&buf[.. %d]);" % c for c in cuts)
    return "    { %slet buf = [%s]; whole(&buf, %d, %s); %s }   // %s" % (decl, arr, end, nested, cut_txt, show(tree)), end

def main():
    out = []
    out.append('''// GENERATED by tools/gen_skip_shapes.py - do not edit.  Kani unit `skip_shapes` (K8): C06, bounded enumeration.
// Every item-tree shape up to the node bound (see the generator), control bytes concrete, ignored bytes symbolic
// (scalar arguments, string payloads, the two bytes after the item).  Contract per shape:
//   alloc build:   skip() is Ok and the position is exactly the end of the item;
//   no-alloc build: Ok at exactly that position, or - only for shapes with an indefinite container inside a
//                   definite one - the documented message error; never a wrong position;
//   every listed strict prefix of the item: skip() is an error.
// The real `Decoder::skip` (both cfg variants) is the code under check; nothing is stubbed except message strings.
use crate::Decoder;

fn whole(buf: &[u8], end: usize, indef_in_def: bool) {
    let mut d = Decoder::new(buf);
    let r = d.skip();
    #[cfg(feature = "alloc")]
    { let _ = indef_in_def; assert!(r.is_ok()); assert!(d.position() == end); }
    #[cfg(not(feature = "alloc"))]
    match &r {
        Ok(()) => assert!(d.position() == end),
        Err(e) => { assert!(indef_in_def); assert!(e.is_message()) }
    }
}

fn cut(buf: &[u8]) {
    let mut d = Decoder::new(buf);
    let r = d.skip();
    assert!(r.is_err());
    assert!(d.position() <= buf.len());
}
''')
    ATTR = '''#[kani::proof]
#[kani::unwind(%d)]
#[cfg_attr(feature = "alloc", kani::stub(crate::decode::Error::with_message, crate::kani_refspec_stubs::with_message))]
#[cfg_attr(feature = "alloc", kani::stub(crate::decode::Error::message, crate::kani_refspec_stubs::message))]
'''
    def harness(name, cases, tier, bound, unwind):
        out.append('// @harness name=%s props=C06 kind=bounded%s bound="%s"' % (name, " tier=thorough" if tier == "thorough" else "", bound))
        out.append(ATTR % unwind + "fn %s() {\n%s\n    kani::cover!(true);\n}\n" % (name, "\n".join(cases)))

    # ---- A: all shapes with <= 3 nodes, preferred widths, leaves = all three kinds; cuts: some
    per = int(sys.argv[1]) if len(sys.argv) > 1 else 12
    CUTS3 = sys.argv[2] if len(sys.argv) > 2 else "some"
    # quick: every shape <= 3 nodes over the scalar leaf, plus every leaf kind alone and as the only child of each container
    cases = []
    seen = set()
    for n in (1, 2, 3):
        for t in trees(n, ["S"]):
            txt, end = case_text(t, [0], CUTS3); cases.append(txt); seen.add(show(t))
    for n in (1, 2):
        for t in trees(n, LEAVES):
            if show(t) not in seen:
                txt, end = case_text(t, [0], CUTS3); cases.append(txt); seen.add(show(t))
    for i in range(0, len(cases), per):
        harness("c06_q3_%02d" % (i // per), cases[i:i + per], "quick", "all trees <= 3 nodes over the scalar leaf; all trees <= 2 nodes over {scalar, text, chunked bytes}; preferred head widths", 14)
    n_q = len(cases)
    # thorough: all shapes <= 3 nodes over all three leaf kinds
    cases = []
    for n in (1, 2, 3):
        for t in trees(n, LEAVES):
            txt, end = case_text(t, [0], CUTS3)
            cases.append(txt)
    for i in range(0, len(cases), per):
        harness("c06_shapes3_%02d" % (i // per), cases[i:i + per], "thorough", "all trees <= 3 nodes, preferred head widths, no prefixes", 14)
    n_a = len(cases)
    # ---- B: head-width sweep on 2-node shapes (every container / tag head at every width)
    cases = []
    for t in trees(2, ["S"]):
        if t[0] in ("arr", "map", "tag"):
            for w in (1, 2, 4, 8):
                txt, end = case_text(t, [w], "none")
                cases.append(txt)
    for t in trees(3, ["S"]):
        if t[0] in ("arr", "map") and len(t[1]) == 2 and all(c[0] == "leaf" for c in t[1]):
            for w in (1, 2, 4, 8):
                txt, end = case_text(t, [w], "none")
                cases.append(txt)
    for i in range(0, len(cases), per):
        harness("c06_widths_%02d" % (i // per), cases[i:i + per], "thorough", "2-node shapes and flat 3-node containers x every head width", 14)
    n_b = len(cases)
    # ---- C (thorough): all shapes with 4 nodes over scalar leaves + text; cuts: all for 3-node, some for 4-node
    cases = []
    for t in trees(4, ["S"]):
        txt, end = case_text(t, [0], "none")
        cases.append(txt)
    for i in range(0, len(cases), per * 2):
        harness("c06_shapes4_%03d" % (i // (per * 2)), cases[i:i + per * 2], "thorough", "all trees with 4 nodes over the scalar leaf, preferred widths", 18)
    n_c = len(cases)
    # ---- E: mode-switch family.  The algorithm counts items (`nrounds`), counts open indefinite containers (`irounds`) and
    # switches to an explicit stack when an indefinite container appears inside a definite one with >= 2 items outstanding.
    # Shapes: [outer indefinite container or none] > definite array (1..3 items) or map (1..2 pairs) holding an
    # indefinite array / map (empty or non-empty) at every position, scalars elsewhere, a scalar after it inside the outer.
    S = ("leaf", "S")
    inners = [("iarr", []), ("imap", []), ("iarr", [S]), ("imap", [S, S])]
    mids = []
    for n in (1, 2, 3):
        for j in range(n):
            for inner in inners:
                kids = [S] * n; kids[j] = inner
                mids.append(("arr", kids))
    for pairs in (1, 2):
        for j in range(2 * pairs):
            for inner in inners[:2] + inners[2:3]:
                kids = [S] * (2 * pairs); kids[j] = inner
                mids.append(("map", kids))
    cases = []
    for mid in mids:
        for outer in ("none", "iarr", "imap", "tag"):
            if outer == "none": t = mid
            elif outer == "iarr": t = ("iarr", [mid, S])
            elif outer == "imap": t = ("imap", [S, mid])
            else: t = ("tag", mid)
            txt, end = case_text(t, [0], "none")
            cases.append(txt)
    for i in range(0, len(cases), per):
        harness("c06_switch_%02d" % (i // per), cases[i:i + per], "quick", "mode-switch family: indefinite container at every position of a definite array (<= 3 items) / map (<= 2 pairs), alone, tagged, or inside an indefinite array / map", 16)
    n_e = len(cases)
    print("switch cases:", n_e)
    # Prefix (truncation) cases are NOT generated: CBMC needs more than 10 minutes and > 14 GB for a single call of the
    # real `skip` whose input ends on an item boundary (measured: `c7`, ``, `9b ff*8 01 02`), and cuts inside a head are
    # unpredictable (1 s .. > 5 min).  The truncation clause of C06 is reported as uncovered.
    # Hostile declared counts (2^63, 2^64-1 ..) followed by a truncated element were tried as well (end of input inside a
    # head): every such harness exceeded 400 s.  Error paths of the real `skip` are out of CBMC's reach here.
    open("/verif/units/kani/minicbor/skip_shapes.rs", "w").write("\n".join(out))
    print("quick:", n_q, "shapes<=3:", n_a, "width cases:", n_b, "4-node:", n_c)

main()
