#!/usr/bin/env python3
"""Development helper: run selected Kani harnesses of registered units on a scratch copy of /repo.
   tools/kani_one.py <crate> <features|-> <unit[,unit]> <harness[,harness]|ALL> [wall_timeout_s] [harness_timeout_s]
   Prints one line per harness (status, seconds, checks, first failed checks); full log in /tmp/kani_one.log"""
import sys, os, shutil
sys.path.insert(0, os.path.dirname(os.path.dirname(os.path.abspath(__file__))))
from lib import registry, kani_run
crate, feats, units, hs = sys.argv[1:5]
wall = int(sys.argv[5]) if len(sys.argv) > 5 else 900
ht = int(sys.argv[6]) if len(sys.argv) > 6 else None
feats = "" if feats == "-" else feats
scratch = kani_run.make_scratch_dir()
srepo = scratch + "/repo"
try:
    kani_run.copy_repo(os.environ.get("VERIF_REPO", "/repo"), srepo)
    shutil.copy(os.path.join(os.environ.get("VERIF_REPO", "/repo"), "Cargo.lock"), srepo + "/Cargo.lock")
    kani_run.inject(srepo, registry.VERIF, registry.KANI_CRATES[crate]["common"])
    names = []
    qual = {}
    for u in units.split(","):
        kani_run.inject(srepo, registry.VERIF, registry.KANI_UNITS[u]["inject"])
        mod = registry.KANI_UNITS[u].get("module", "")
        for h in kani_run.discover(os.path.join(registry.VERIF, registry.KANI_UNITS[u]["src"]), u, ""):
            qual[h.name] = (mod + "::" + h.name) if mod else h.name
            names.append(h.name)
    if hs != "ALL":
        names = hs.split(",")
    names = [qual.get(n, n) for n in names]
    cdir = os.path.normpath(os.path.join(srepo, registry.KANI_CRATES[crate]["dir"]))
    out = kani_run.run_kani(cdir, names, features=feats, jobs=12, timeout=wall, log_path="/tmp/kani_one.log", harness_timeout=ht, exact_ok=all("::" in n for n in names))
    for k, v in sorted(out["results"].items()):
        print("%-50s %-10s %7.1fs checks=%s %s" % (k.split("::")[-1], v["status"], v["time"], v["checks"], [f["check"][:80] for f in v["failed"][:3]]))
    print("wall %.0fs timed_out=%s compile_error=%s killed=%s" % (out["wall"], out["timed_out"], out["compile_error"], out["killed"]))
    if out["compile_error"] or not out["results"]:
        print(out["tail"][-3000:])
finally:
    if not os.environ.get("KEEP"):
        kani_run.rm_scratch(scratch)
    else:
        print("scratch kept:", scratch)
