use minicbor_io::Writer;
#[test]
fn writer_prefix_4gib() {
    // payload whose encoding is 2^32 - 4 bytes long: buffer.len() == 2^32, `as u32` gives 0, `0 - 4` underflows
    let l: usize = (1usize << 32) - 9;
    let data = vec![0u8; l];
    let bytes: &minicbor::bytes::ByteSlice = data.as_slice().into();
    let mut w = Writer::new(std::io::sink());
    w.set_max_len(u32::MAX);
    let n = w.write(bytes).expect("frame written");
    assert_eq!(n, l + 5);
}
