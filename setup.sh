#!/bin/sh
# Nothing is built ahead of time: every check re-extracts / re-injects from /repo's working tree.
# This only confirms the pre-installed tools are reachable and the extractor's self-test passes.
set -e
cd "$(dirname "$0")"
command -v verus >/dev/null || { echo "verus not on PATH"; exit 1; }
command -v cargo-kani >/dev/null || { echo "cargo-kani not on PATH"; exit 1; }
command -v rsync >/dev/null || { echo "rsync missing"; exit 1; }
python3 - <<'PY'
import sys
sys.path.insert(0, ".")
from lib import rtok, vx
toks = rtok.code(rtok.lex("fn f<'a>(x: &'a str) -> u8 { let c = 'x'; /* c */ b\"q\"[0] } // t"))
assert [t.text for t in toks][:3] == ["fn", "f", "<"], toks
print("setup ok")
PY
