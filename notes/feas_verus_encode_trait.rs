use vstd::prelude::*;
verus! {

pub trait Write {
    type Error;
    spec fn out(&self) -> Seq<u8>;
    fn write_all(&mut self, buf: &[u8]) -> (r: Result<(), Self::Error>)
        ensures r.is_ok() ==> final(self).out() == old(self).out() + buf@;
}

pub struct Error<E> { pub e: E }
impl<E> Error<E> { pub fn write(e: E) -> Self { Error { e } } }

pub struct Encoder<W> { pub writer: W }

pub trait Encode<C> {
    spec fn enc(&self) -> Seq<u8>;
    fn encode<W: Write>(&self, e: &mut Encoder<W>, ctx: &mut C) -> (r: Result<(), Error<W::Error>>)
        ensures r.is_ok() ==> final(e).writer.out() == old(e).writer.out() + self.enc();
    fn is_nil(&self) -> bool { false }
}

impl<W: Write> Encoder<W> {
    pub(crate) fn put(&mut self, b: &[u8]) -> (r: Result<&mut Self, Error<W::Error>>)
        ensures r matches Ok(e) ==> (*e).writer.out() == old(self).writer.out() + b@ && *final(e) == *final(self)
    {
        self.writer.write_all(b).map_err(Error::write)?;
        Ok(self)
    }

    pub fn null(&mut self) -> (r: Result<&mut Self, Error<W::Error>>)
        ensures r matches Ok(e) ==> (*e).writer.out() == old(self).writer.out() + seq![0xf6u8] && *final(e) == *final(self)
    {
        self.put(&[0xe0 | 22])
    }

    pub fn bool(&mut self, x: bool) -> (r: Result<&mut Self, Error<W::Error>>)
        ensures r matches Ok(e) ==> (*e).writer.out() == old(self).writer.out() + seq![if x { 0xf5u8 } else { 0xf4u8 }] && *final(e) == *final(self)
    {
        self.put(&[0xe0 | if x { 0x15 } else { 0x14 }])
    }

    pub fn encode_with<C, T: Encode<C>>(&mut self, x: T, ctx: &mut C) -> (r: Result<&mut Self, Error<W::Error>>)
        ensures r matches Ok(e) ==> (*e).writer.out() == old(self).writer.out() + x.enc() && *final(e) == *final(self)
    {
        x.encode(self, ctx)?;
        Ok(self)
    }
}

impl<C> Encode<C> for bool {
    open spec fn enc(&self) -> Seq<u8> { seq![if *self { 0xf5u8 } else { 0xf4u8 }] }
    fn encode<W: Write>(&self, e: &mut Encoder<W>, _vx0: &mut C) -> Result<(), Error<W::Error>> {
        e.bool(*self)?;
        Ok(())
    }
}

impl<C, T: Encode<C>> Encode<C> for Option<T> {
    open spec fn enc(&self) -> Seq<u8> { match self { Some(x) => x.enc(), None => seq![0xf6u8] } }
    fn encode<W: Write>(&self, e: &mut Encoder<W>, ctx: &mut C) -> Result<(), Error<W::Error>> {
        if let Some(x) = self {
            x.encode(e, ctx)?;
        } else {
            e.null()?;
        }
        Ok(())
    }

    fn is_nil(&self) -> bool {
        self.is_none()
    }
}
}
fn main() {}
