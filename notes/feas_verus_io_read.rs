use vstd::prelude::*;
use std::io;
verus! {

#[verifier::external_type_specification]
#[verifier::external_body]
pub struct ExIoError(io::Error);

#[verifier::external_type_specification]
pub struct ExErrorKind(io::ErrorKind);

pub assume_specification [io::Error::kind] (e: &io::Error) -> (k: io::ErrorKind);

#[verifier::external_trait_specification]
#[verifier::external_trait_extension(ReadSpec via ReadSpecImpl)]
pub trait ExRead {
    type ExternalTraitSpecificationFor: io::Read;

    /// bytes still to be delivered by this source (ghost stream)
    spec fn remaining(&self) -> Seq<u8>;

    fn read(&mut self, buf: &mut [u8]) -> (r: io::Result<usize>)
        ensures
            final(buf)@.len() == old(buf)@.len(),
            match r {
                Ok(n) => n <= old(buf)@.len()
                    && n <= old(self).remaining().len()
                    && (n == 0 ==> (old(buf)@.len() == 0 || old(self).remaining().len() == 0))
                    && final(buf)@.subrange(0, n as int) == old(self).remaining().subrange(0, n as int)
                    && final(self).remaining() == old(self).remaining().skip(n as int),
                Err(_) => final(self).remaining() == old(self).remaining(),
            };
}

pub struct Reader<R> { pub reader: R, pub buffer: Vec<u8>, pub max_len: usize }

impl<R: io::Read> Reader<R> {
    #[verifier::exec_allows_no_decreases_clause]
    pub fn read_prefix(&mut self) -> (r: Result<Option<[u8; 4]>, io::Error>)
    {
        let mut buf = [0; 4];
        let mut len = 0;
        while len < 4
            invariant len <= 4
        {
            match self.reader.read(&mut buf[len ..]) {
                Ok(0) if len == 0 =>
                    return Ok(None),
                Ok(0) =>
                    return Err(io::ErrorKind::UnexpectedEof.into()),
                Ok(n) =>
                    len += n,
                Err(e) if e.kind() == io::ErrorKind::Interrupted =>
                    continue,
                Err(e) =>
                    return Err(e)
            }
        }
        Ok(Some(buf))
    }
}
}
fn main() {}
