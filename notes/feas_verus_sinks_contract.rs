use vstd::prelude::*;
verus! {

pub mod ax {
use vstd::prelude::*;
pub broadcast axiom fn axiom_slice_len_usize<T>(s: &[T])
    ensures #[trigger] s@.len() <= usize::MAX;
}
broadcast use ax::axiom_slice_len_usize;

pub assume_specification<T: Default> [core::mem::take::<T>] (d: &mut T) -> (r: T)
    ensures r == *old(d), T::default.ensures((), *final(d));

pub assume_specification<'a, T> [<&'a mut [T] as Default>::default] () -> (r: &'a mut [T])
    ensures r@.len() == 0;

pub trait Write {
    type Error;
    spec fn wf(&self) -> bool;
    fn write_all(&mut self, buf: &[u8]) -> (r: Result<(), Self::Error>)
        requires old(self).wf(),
        ensures final(self).wf();
}

pub struct EndOfSlice(());

impl Write for &mut [u8] {
    type Error = EndOfSlice;
    open spec fn wf(&self) -> bool { true }

    fn write_all(&mut self, buf: &[u8]) -> (r: Result<(), Self::Error>)
        ensures
            r is Ok <==> buf@.len() <= old(self)@.len(),
            r is Ok ==> final(self)@.len() == old(self)@.len() - buf@.len(),
            r is Err ==> final(self)@ == old(self)@,
    {
        if self.len() < buf.len() {
            return Err(EndOfSlice(()))
        }
        let this = core::mem::take(self);
        let (prefix, suffix) = this.split_at_mut(buf.len());
        prefix.copy_from_slice(buf);
        *self = suffix;
        Ok(())
    }
}

pub struct Cursor<W>(pub W, pub usize);


pub struct EndOfArray(());

impl<const N: usize> Write for Cursor<[u8; N]> {
    type Error = EndOfArray;
    open spec fn wf(&self) -> bool { self.1 <= N }

    fn write_all(&mut self, buf: &[u8]) -> (r: Result<(), Self::Error>)
        ensures
            r is Ok <==> old(self).1 + buf@.len() <= N,
            r is Ok ==> final(self).1 == old(self).1 + buf@.len()
                && final(self).0@.subrange(old(self).1 as int, final(self).1 as int) == buf@
                && final(self).0@.subrange(0, old(self).1 as int) == old(self).0@.subrange(0, old(self).1 as int)
                && final(self).0@.subrange(final(self).1 as int, N as int) == old(self).0@.subrange(final(self).1 as int, N as int),
            r is Err ==> final(self).1 == old(self).1 && final(self).0@ == old(self).0@,
    {
        let mut slice = &mut self.0[self.1 ..];
        slice.write_all(buf).map_err(|_e| EndOfArray(()))?;
        self.1 += buf.len();
        Ok(())
    }
}
}
fn main() {}
