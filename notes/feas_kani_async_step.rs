use super::*;
use core::pin::Pin;
use core::task::{Context, Poll, RawWaker, RawWakerVTable, Waker};
use core::future::Future;

fn noop_waker() -> Waker {
    fn clone(_: *const ()) -> RawWaker { RawWaker::new(core::ptr::null(), &VT) }
    fn noop(_: *const ()) {}
    static VT: RawWakerVTable = RawWakerVTable::new(clone, noop, noop, noop);
    unsafe { Waker::from_raw(RawWaker::new(core::ptr::null(), &VT)) }
}

/// Scripted source: serves `data[off..]`; first call outcome is symbolic, later calls are Pending.
struct Src { data: [u8; 6], len: usize, off: usize, calls: u8, eof: bool }

impl AsyncRead for Src {
    fn poll_read(mut self: Pin<&mut Self>, _: &mut Context<'_>, buf: &mut [u8]) -> Poll<io::Result<usize>> {
        self.calls += 1;
        if self.calls > 1 { return Poll::Pending }
        if kani::any() { return Poll::Pending }
        let avail = self.len - self.off;
        if avail == 0 || buf.len() == 0 { self.eof = true; return Poll::Ready(Ok(0)) }
        let k: usize = kani::any();
        kani::assume(k >= 1 && k <= avail && k <= buf.len());
        let mut i = 0;
        while i < k { buf[i] = self.data[self.off + i]; i += 1 }
        self.off += k;
        Poll::Ready(Ok(k))
    }
}

#[kani::proof]
#[kani::unwind(6)]
fn reader_step() {
    // stream = one frame: prefix(len) ++ payload, len <= 4
    let plen: usize = kani::any();
    kani::assume(plen <= 2);
    let mut data = [0u8; 6];
    data[3] = plen as u8;
    let mut i = 0;
    while i < plen { data[4 + i] = kani::any(); i += 1 }
    // arbitrary reader state consistent with having consumed `c` bytes of the stream
    let c: usize = kani::any();
    kani::assume(c <= 4 + plen);
    let mut r = AsyncReader::new(Src { data, len: 4 + plen, off: c, calls: 0, eof: false });
    r.set_max_len(2);
    if c < 4 {
        let mut b = [0u8; 4];
        let mut i = 0;
        while i < c { b[i] = data[i]; i += 1 }
        r.state = State::ReadLen(b, c as u8);
    } else {
        r.buffer = if plen == 0 { vec![] } else if plen == 1 { vec![0u8] } else { vec![0u8, 0u8] };
        let mut i = 0;
        while i < c - 4 { r.buffer[i] = data[4 + i]; i += 1 }
        r.state = State::ReadVal(c - 4);
    }
    let w = noop_waker();
    let mut cx = Context::from_waker(&w);
    {
        let mut fut = core::pin::pin!(r.read::<bool>());
        let _ = fut.as_mut().poll(&mut cx);
    }
    // invariant after the step (future dropped): state reflects exactly the bytes consumed
    let c2 = r.reader.off;
    assert!(c2 >= c);
    match r.state {
        State::ReadLen(b, n) => {
            let n = n as usize;
            assert!(n <= 4);
            if c2 < 4 { assert!(n == c2); let mut i = 0; while i < n { assert!(b[i] == data[i]); i += 1 } }
        }
        State::ReadVal(o) => {
            assert!(c2 >= 4 && o == c2 - 4 && r.buffer.len() == plen);
        }
    }
}
