use vstd::prelude::*;
verus! {

pub struct Error { pub kind: u8 }

pub assume_specification<'a, T: Copy> [core::option::Option::<&'a T>::copied] (o: Option<&'a T>) -> (r: Option<T>)
    ensures r == match o { Some(x) => Some(*x), None => None };


impl Error {
    #[verifier::external_body]
    pub fn end_of_input() -> (e: Error)
        ensures e.kind == 1
    { Error { kind: 1 } }
}

pub mod ax {
use vstd::prelude::*;
pub broadcast axiom fn axiom_slice_len_usize<T>(s: &[T])
    ensures #[trigger] s@.len() <= usize::MAX;
}
broadcast use ax::axiom_slice_len_usize;

pub struct Decoder<'b> {
    buf: &'b [u8],
    pos: usize
}

impl<'b> Decoder<'b> {
    pub closed spec fn wf(&self) -> bool { self.pos <= self.buf@.len() }

    /// Get the byte at the current position.
    fn current(&self) -> (r: Result<u8, Error>)
        ensures
            self.pos < self.buf@.len() ==> r == Ok::<u8,Error>(self.buf@[self.pos as int]),
            self.pos >= self.buf@.len() ==> r.is_err(),
    {
        if let Some(b) = self.buf.get(self.pos) {
            return Ok(*b)
        }
        Err(Error::end_of_input())
    }

    /// Consume and return the byte at the current position.
    fn read(&mut self) -> (r: Result<u8, Error>)
        ensures
            old(self).pos < old(self).buf@.len() ==> r == Ok::<u8,Error>(old(self).buf@[old(self).pos as int]) && final(self).pos == old(self).pos + 1,
            old(self).pos >= old(self).buf@.len() ==> r.is_err() && final(self).pos == old(self).pos,
            final(self).buf == old(self).buf,
    {
        if let Some(b) = self.buf.get(self.pos) {
            self.pos += 1;
            return Ok(*b)
        }
        Err(Error::end_of_input())
    }

    /// Peek to the next byte.
    fn peek(&self) -> Result<u8, Error> {
        self.pos.checked_add(1)
            .and_then(|i| self.buf.get(i).copied())
            .ok_or_else(Error::end_of_input)
    }

    /// Consume and return *n* bytes starting at the current position.
    fn read_slice(&mut self, n: usize) -> Result<&'b [u8], Error> {
        if let Some(b) = self.pos.checked_add(n).and_then(|end| self.buf.get(self.pos .. end)) {
            self.pos += n;
            return Ok(b)
        }
        Err(Error::end_of_input())
    }
}

}
fn main() {}
