use crate::{Decoder, Encoder};
use crate::encode::write::Cursor;

fn ref_uint(buf: &[u8]) -> Option<(u64, usize)> {
    let b = *buf.get(0)?;
    if b >> 5 != 0 { return None }
    let info = b & 0x1f;
    match info {
        0..=23 => Some((info as u64, 1)),
        24 => Some((*buf.get(1)? as u64, 2)),
        25 => { if buf.len() < 3 { return None } Some((((buf[1] as u64) << 8) | buf[2] as u64, 3)) }
        26 => { if buf.len() < 5 { return None } let mut v = 0u64; let mut i = 1; while i < 5 { v = (v << 8) | buf[i] as u64; i += 1 } Some((v, 5)) }
        27 => { if buf.len() < 9 { return None } let mut v = 0u64; let mut i = 1; while i < 9 { v = (v << 8) | buf[i] as u64; i += 1 } Some((v, 9)) }
        _ => None
    }
}

#[kani::proof]
#[kani::unwind(10)]
fn dec_u64() {
    let arr: [u8; 12] = kani::any();
    let len: usize = kani::any();
    kani::assume(len <= 12);
    let buf = &arr[..len];
    let mut d = Decoder::new(buf);
    let r = d.u64();
    match ref_uint(buf) {
        Some((v, n)) => { assert!(r.is_ok()); assert!(r.unwrap() == v); assert!(d.position() == n); }
        None => { assert!(r.is_err()); assert!(d.position() <= len); }
    }
}

#[kani::proof]
#[kani::unwind(10)]
fn dec_u8() {
    let arr: [u8; 12] = kani::any();
    let len: usize = kani::any();
    kani::assume(len <= 12);
    let buf = &arr[..len];
    let mut d = Decoder::new(buf);
    let r = d.u8();
    match ref_uint(buf) {
        Some((v, n)) if v <= 255 => { assert!(r.is_ok()); assert!(r.unwrap() as u64 == v); assert!(d.position() == n); }
        _ => { assert!(r.is_err()); assert!(d.position() <= len); }
    }
}

#[kani::proof]
fn enc_u64() {
    let x: u64 = kani::any();
    let mut e = Encoder::new(Cursor::new([0u8; 12]));
    let ok = e.u64(x).is_ok();
    assert!(ok);
    let c = e.into_writer();
    let n = c.position();
    let out = c.into_inner();
    let r = ref_uint(&out[..n]);
    assert!(r == Some((x, n)));
    // shortest form
    assert!(n == if x < 24 {1} else if x < 256 {2} else if x < 65536 {3} else if x < (1u64<<32) {5} else {9});
}

#[cfg(feature = "alloc")]
fn stub_with_message<T: core::fmt::Display>(e: crate::decode::Error, _m: T) -> crate::decode::Error { e }

#[cfg(feature = "alloc")]
#[kani::proof]
#[kani::unwind(10)]
#[kani::stub(crate::decode::Error::with_message, stub_with_message)]
fn dec_u8_alloc() {
    let arr: [u8; 12] = kani::any();
    let len: usize = kani::any();
    kani::assume(len <= 12);
    let buf = &arr[..len];
    let mut d = Decoder::new(buf);
    let r = d.u8();
    match ref_uint(buf) {
        Some((v, n)) if v <= 255 => { match r { Ok(x) => assert!(x as u64 == v), Err(_) => assert!(false) } assert!(d.position() == n); }
        _ => { assert!(r.is_err()); assert!(d.position() <= len); }
    }
}

pub(crate) fn unsigned_post(p0: usize, b: u8, buf: &[u8], p1: usize, r: &Result<u64, crate::decode::Error>) -> bool {
    let avail = if p0 <= buf.len() { buf.len() - p0 } else { 0 };
    let need: Option<usize> = match b { 0..=0x17 => Some(0), 0x18 => Some(1), 0x19 => Some(2), 0x1a => Some(4), 0x1b => Some(8), _ => None };
    match need {
        None => r.is_err() && p1 == p0,
        Some(k) if k > avail => match r { Err(e) => e.is_end_of_input() && p1 == p0, Ok(_) => false },
        Some(k) => {
            let mut v: u64 = 0;
            let mut i = 0;
            while i < k { v = (v << 8) | buf[p0 + i] as u64; i += 1 }
            if k == 0 { v = b as u64 }
            match r { Ok(x) => *x == v && p1 == p0 + k, Err(_) => false }
        }
    }
}

#[kani::proof_for_contract(Decoder::unsigned)]
#[kani::unwind(10)]
fn contract_unsigned() {
    let arr: [u8; 12] = kani::any();
    let len: usize = kani::any();
    kani::assume(len <= 12);
    let mut d = Decoder::new(&arr[..len]);
    let p: usize = kani::any();
    d.set_position(p);
    let _ = d.unsigned(kani::any(), kani::any());
}

#[cfg(feature = "half")]
#[kani::proof]
fn dec_f16_all() {
    let h: u16 = kani::any();
    let buf = [0xf9u8, (h >> 8) as u8, h as u8];
    let mut d = Decoder::new(&buf);
    let r = d.f16();
    let s = ((h >> 15) as u32) << 31;
    let e = ((h >> 10) & 0x1f) as u32;
    let m = (h & 0x3ff) as u32;
    let expect: u32 = if e == 31 { s | 0x7f80_0000 | (m << 13) }
        else if e == 0 { s | ((m as f32) * f32::from_bits(0x3380_0000)).to_bits() }
        else { s | ((e + 112) << 23) | (m << 13) };
    match r {
        Ok(x) => {
            if e == 31 && m != 0 { assert!(x.is_nan()); assert!(x.to_bits() | 0x0040_0000 == expect | 0x0040_0000); }
            else { assert!(x.to_bits() == expect) }
        }
        Err(_) => assert!(false)
    }
    assert!(d.position() == 3);
}

// reference: end offset of the well-formed item starting at `p`, None if not a complete well-formed item
fn ref_head(buf: &[u8], p: usize) -> Option<(u8, u8, u64, usize)> { // major, info, arg, next
    let b = *buf.get(p)?;
    let (mt, ai) = (b >> 5, b & 0x1f);
    let (arg, n) = match ai {
        0..=23 => (ai as u64, 1usize),
        24 => (*buf.get(p + 1)? as u64, 2),
        25 => { if p + 3 > buf.len() { return None } ((buf[p+1] as u64) << 8 | buf[p+2] as u64, 3) }
        26 => { if p + 5 > buf.len() { return None } let mut v = 0u64; let mut i = 1; while i < 5 { v = v << 8 | buf[p+i] as u64; i += 1 } (v, 5) }
        27 => { if p + 9 > buf.len() { return None } let mut v = 0u64; let mut i = 1; while i < 9 { v = v << 8 | buf[p+i] as u64; i += 1 } (v, 9) }
        31 => (0, 1),
        _ => return None
    };
    Some((mt, ai, arg, p + n))
}

fn ref_item_end(buf: &[u8], p: usize, fuel: u32) -> Option<usize> {
    if fuel == 0 { return None }
    let (mt, ai, arg, q) = ref_head(buf, p)?;
    match mt {
        0 | 1 => if ai == 31 { None } else { Some(q) },
        2 | 3 => if ai == 31 {
            let mut q = q;
            loop {
                if *buf.get(q)? == 0xff { return Some(q + 1) }
                let (m2, a2, n2, q2) = ref_head(buf, q)?;
                if m2 != mt || a2 == 31 { return None }
                let e = (q2 as u64).checked_add(n2)?;
                if e > buf.len() as u64 { return None }
                q = e as usize;
            }
        } else {
            let e = (q as u64).checked_add(arg)?;
            if e > buf.len() as u64 { None } else { Some(e as usize) }
        },
        4 | 5 => {
            let mut q = q;
            if ai == 31 {
                let mut k: u64 = 0;
                loop {
                    if *buf.get(q)? == 0xff { return if mt == 5 && k % 2 == 1 { None } else { Some(q + 1) } }
                    q = ref_item_end(buf, q, fuel - 1)?;
                    k += 1;
                }
            } else {
                let total = if mt == 5 { arg.checked_mul(2)? } else { arg };
                if total > buf.len() as u64 { return None }
                let mut i = 0;
                while i < total { q = ref_item_end(buf, q, fuel - 1)?; i += 1 }
                Some(q)
            }
        }
        6 => if ai == 31 { None } else { ref_item_end(buf, q, fuel - 1) },
        _ => match ai { 0..=23 => Some(q), 24 => if arg < 32 { None } else { Some(q) }, 25 | 26 | 27 => Some(q), _ => None }
    }
}

#[kani::proof]
#[kani::unwind(8)]
fn skip_bounded() {
    const N: usize = 5;
    let arr: [u8; N] = kani::any();
    let mut d = Decoder::new(&arr);
    let r = d.skip();
    match ref_item_end(&arr, 0, N as u32 + 1) {
        Some(e) => { assert!(r.is_ok()); assert!(d.position() == e) }
        None => { assert!(d.position() <= N) }
    }
}

#[cfg(all(feature = "alloc", feature = "half"))]
mod disp {
    use core::fmt::Write;
    struct Count { n: usize }
    impl core::fmt::Write for Count {
        fn write_str(&mut self, s: &str) -> core::fmt::Result { self.n += s.len(); Ok(()) }
    }
    #[kani::proof]
    #[kani::unwind(12)]
    #[kani::stub(crate::decode::Error::with_message, super::stub_with_message)]
    fn display_2bytes() {
        let arr: [u8; 2] = kani::any();
        kani::assume(arr[0] >> 5 != 7); // no floats/simple in this probe
        kani::assume(arr[0] & 0x1f < 4 || arr[0] & 0x1f == 31);
        let mut c = Count { n: 0 };
        let r = write!(c, "{}", crate::display(&arr));
        assert!(r.is_ok());
        assert!(c.n <= 64);
    }
}
