use vstd::prelude::*;
verus! {

pub trait Write {
    type Error;
    fn write_all(&mut self, buf: &[u8]) -> Result<(), Self::Error>;
}

pub struct EndOfSlice(());

pub assume_specification<T: Default> [core::mem::take::<T>] (d: &mut T) -> (r: T)
    ensures r == *old(d), T::default.ensures((), *final(d));

pub assume_specification<'a, T> [<&'a mut [T] as Default>::default] () -> (r: &'a mut [T])
    ensures r@.len() == 0;


impl Write for &mut [u8] {
    type Error = EndOfSlice;

    fn write_all(&mut self, buf: &[u8]) -> (r: Result<(), Self::Error>)
    {
        if self.len() < buf.len() {
            return Err(EndOfSlice(()))
        }
        let this = core::mem::take(self);
        let (prefix, suffix) = this.split_at_mut(buf.len());
        prefix.copy_from_slice(buf);
        *self = suffix;
        Ok(())
    }
}

pub struct Cursor<W>(W, usize);

impl Write for Cursor<&mut [u8]> {
    type Error = EndOfSlice;

    fn write_all(&mut self, buf: &[u8]) -> Result<(), Self::Error> {
        let mut slice = &mut self.0[self.1 ..];
        slice.write_all(buf)?;
        self.1 += buf.len();
        Ok(())
    }
}

}
fn main() {}
