use vstd::prelude::*;
use std::io;
verus! {

#[verifier::external_type_specification]
#[verifier::external_body]
pub struct ExIoError(io::Error);

#[verifier::external_type_specification]
pub struct ExErrorKind(io::ErrorKind);

pub assume_specification [io::Error::kind] (e: &io::Error) -> (k: io::ErrorKind);

#[verifier::external_trait_specification]
#[verifier::external_trait_extension(ReadSpec via ReadSpecImpl)]
pub trait ExRead {
    type ExternalTraitSpecificationFor: io::Read;

    /// bytes still to be delivered by this source (ghost stream)
    spec fn remaining(&self) -> Seq<u8>;

    fn read(&mut self, buf: &mut [u8]) -> (r: io::Result<usize>)
        ensures
            final(buf)@.len() == old(buf)@.len(),
            match r {
                Ok(n) => n <= old(buf)@.len()
                    && n <= old(self).remaining().len()
                    && (n == 0 ==> (old(buf)@.len() == 0 || old(self).remaining().len() == 0))
                    && final(buf)@.subrange(0, n as int) == old(self).remaining().subrange(0, n as int)
                    && final(self).remaining() == old(self).remaining().skip(n as int),
                Err(_) => final(self).remaining() == old(self).remaining(),
            };

    fn read_exact(&mut self, buf: &mut [u8]) -> (r: io::Result<()>)
        ensures
            final(buf)@.len() == old(buf)@.len(),
            match r {
                Ok(()) => old(buf)@.len() <= old(self).remaining().len()
                    && final(buf)@ == old(self).remaining().subrange(0, old(buf)@.len() as int)
                    && final(self).remaining() == old(self).remaining().skip(old(buf)@.len() as int),
                // on error an unspecified prefix has been consumed; std only promises failure when the stream is short (or an I/O error)
                Err(_) => true,
            };
}


pub enum Error { Io(io::Error), Decode(DecErr), InvalidLen }
#[verifier::external_body]
pub struct DecErr { _p: () }

impl From<io::Error> for Error {
    fn from(e: io::Error) -> (r: Self) ensures r is Io { Error::Io(e) }
}

pub open spec fn be32(a: Seq<u8>) -> nat {
    a[0] as nat * 0x1000000 + a[1] as nat * 0x10000 + a[2] as nat * 0x100 + a[3] as nat
}
#[verifier::external_body]
pub fn u32_from_be_bytes(a: [u8; 4]) -> (r: u32) ensures r as nat == be32(a@) { u32::from_be_bytes(a) }

pub uninterp spec fn dec_spec<T>(payload: Seq<u8>) -> Result<T, DecErr>;
#[verifier::external_body]
pub fn decode_with<T, C>(b: &[u8], ctx: &mut C) -> (r: Result<T, DecErr>)
    ensures r == dec_spec::<T>(b@)
{ unimplemented!() }

pub struct Reader<R> { pub reader: R, pub buffer: Vec<u8>, pub max_len: usize }

impl<R: io::Read> Reader<R> {
    #[verifier::exec_allows_no_decreases_clause]
    pub fn read_with<C, T>(&mut self, ctx: &mut C) -> (r: Result<Option<T>, Error>)
        ensures
            final(self).max_len == old(self).max_len,
            ({
                let s = old(self).reader.remaining();
                &&& (r matches Ok(None) ==> s.len() == 0 && final(self).reader.remaining() == s)
                &&& (r matches Ok(Some(v)) ==> s.len() >= 4 && ({
                        let n = be32(s.subrange(0, 4));
                        n <= old(self).max_len && s.len() >= 4 + n
                        && dec_spec::<T>(s.subrange(4, 4 + n as int)) == Ok::<T, DecErr>(v)
                        && final(self).reader.remaining() == s.skip(4 + n as int)
                    }))
                &&& (r matches Err(Error::Decode(e)) ==> s.len() >= 4 && ({
                        let n = be32(s.subrange(0, 4));
                        n <= old(self).max_len && s.len() >= 4 + n
                        && final(self).reader.remaining() == s.skip(4 + n as int)
                    }))
                &&& (r matches Err(Error::InvalidLen) ==> s.len() >= 4 && be32(s.subrange(0, 4)) > old(self).max_len
                        && final(self).buffer@ == old(self).buffer@)
                &&& (s.len() >= 4 && be32(s.subrange(0, 4)) <= old(self).max_len ==> final(self).buffer@.len() <= old(self).max_len || r is Err)
            }),
    {
        let mut buf = [0; 4];
        let mut len = 0;
        while len < 4
            invariant
                len <= 4,
                self.max_len == old(self).max_len,
                self.buffer@ == old(self).buffer@,
                len <= old(self).reader.remaining().len(),
                buf@.subrange(0, len as int) == old(self).reader.remaining().subrange(0, len as int),
                self.reader.remaining() == old(self).reader.remaining().skip(len as int),
        {
            match self.reader.read(&mut buf[len ..]) {
                Ok(0) if len == 0 =>
                    return Ok(None),
                Ok(0) =>
                    return Err(Error::Io(io::ErrorKind::UnexpectedEof.into())),
                Ok(n) =>
                    len += n,
                Err(e) if e.kind() == io::ErrorKind::Interrupted =>
                    continue,
                Err(e) =>
                    return Err(Error::Io(e))
            }
        }
        let len = u32_from_be_bytes(buf) as usize;
        if len > self.max_len {
            return Err(Error::InvalidLen)
        }
        self.buffer.clear();
        self.buffer.resize(len, 0u8);
        self.reader.read_exact(&mut self.buffer)?;
        decode_with(&self.buffer, ctx).map_err(|e: DecErr| -> (r: Error) ensures r == Error::Decode(e) { Error::Decode(e) }).map(|v: T| -> (r: Option<T>) ensures r == Some(v) { Some(v) })
    }
}
}
fn main() {}
