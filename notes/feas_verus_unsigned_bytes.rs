use vstd::prelude::*;
verus! {

pub mod ax {
use vstd::prelude::*;
pub broadcast axiom fn axiom_slice_len_usize<T>(s: &[T])
    ensures #[trigger] s@.len() <= usize::MAX;
}
broadcast use ax::axiom_slice_len_usize;

#[derive(Clone, Copy, PartialEq, Eq, Debug)]
pub enum Type {
    Bool, Null, Undefined, U8, U16, U32, U64, I8, I16, I32, I64, Int, F16, F32, F64, Simple,
    Bytes, BytesIndef, String, StringIndef, Array, ArrayIndef, Map, MapIndef, Tag, Break, Unknown(u8)
}

#[verifier::external_body]
pub struct Error { _p: () }

pub enum EK { EndOfInput, TypeMismatch, Overflow, Other }

impl Error {
    pub uninterp spec fn kind(&self) -> EK;

    #[verifier::external_body]
    pub fn end_of_input() -> (e: Error) ensures e.kind() == EK::EndOfInput { unimplemented!() }
    #[verifier::external_body]
    pub fn type_mismatch(ty: Type) -> (e: Error) ensures e.kind() == EK::TypeMismatch { unimplemented!() }
    #[verifier::external_body]
    pub fn overflow(n: u64) -> (e: Error) ensures e.kind() == EK::Overflow { unimplemented!() }
    #[verifier::external_body]
    pub fn at(self, pos: usize) -> (e: Error) ensures e.kind() == self.kind() { unimplemented!() }
    #[verifier::external_body]
    pub fn with_message(self, m: &'static str) -> (e: Error) ensures e.kind() == self.kind() { unimplemented!() }
}

pub assume_specification<'a, T: Copy> [core::option::Option::<&'a T>::copied] (o: Option<&'a T>) -> (r: Option<T>)
    ensures r == match o { Some(x) => Some(*x), None => None };

pub open spec fn be16(a: Seq<u8>) -> u16 { (a[0] as u16 * 256 + a[1] as u16) as u16 }
#[verifier::external_body]
pub fn u16_from_be_bytes(a: [u8; 2]) -> (r: u16)
    ensures r as nat == be_val(a@)
{ u16::from_be_bytes(a) }

pub open spec fn be_val(a: Seq<u8>) -> nat {
    if a.len() == 1 { a[0] as nat }
    else if a.len() == 2 { a[0] as nat * 0x100 + a[1] as nat }
    else if a.len() == 4 { a[0] as nat * 0x1000000 + a[1] as nat * 0x10000 + a[2] as nat * 0x100 + a[3] as nat }
    else if a.len() == 8 { a[0] as nat * 0x100000000000000 + a[1] as nat * 0x1000000000000 + a[2] as nat * 0x10000000000 + a[3] as nat * 0x100000000
        + a[4] as nat * 0x1000000 + a[5] as nat * 0x10000 + a[6] as nat * 0x100 + a[7] as nat }
    else { 0 }
}
#[verifier::external_body]
pub fn u32_from_be_bytes(a: [u8; 4]) -> (r: u32) ensures r as nat == be_val(a@) { u32::from_be_bytes(a) }
#[verifier::external_body]
pub fn u64_from_be_bytes(a: [u8; 8]) -> (r: u64) ensures r as nat == be_val(a@) { u64::from_be_bytes(a) }

pub open spec fn info_of_spec(b: u8) -> u8 { b & 0x1f }
pub open spec fn major_of_spec(b: u8) -> u8 { b & 0xe0 }
pub(crate) fn type_of(b: u8) -> (r: u8) ensures r == major_of_spec(b) { b & 0b111_00000 }
pub(crate) fn info_of(b: u8) -> (r: u8) ensures r == info_of_spec(b) { b & 0b000_11111 }

pub const BYTES: u8 = 0x40;

/// spec: argument width in bytes following the initial byte for info i (None = invalid for unsigned())
pub open spec fn arg_width(i: u8) -> Option<nat> {
    if i <= 0x17 { Some(0nat) } else if i == 0x18 { Some(1nat) } else if i == 0x19 { Some(2nat) } else if i == 0x1a { Some(4nat) } else if i == 0x1b { Some(8nat) } else { None }
}
pub open spec fn arg_val(i: u8, s: Seq<u8>) -> nat {
    if i <= 0x17 { i as nat } else { be_val(s) }
}

fn u64_to_usize(n: u64, pos: usize) -> (r: Result<usize, Error>)
    ensures n <= usize::MAX ==> r == Ok::<usize, Error>(n as usize), n > usize::MAX ==> r.is_err()
{
    n.try_into().map_err(|_e| Error::overflow(n).at(pos).with_message("when converting u64 to usize"))
}

pub struct Decoder<'b> {
    pub buf: &'b [u8],
    pub pos: usize
}

impl<'b> Decoder<'b> {
    fn read(&mut self) -> (r: Result<u8, Error>)
        ensures
            old(self).pos < old(self).buf@.len() ==> r == Ok::<u8,Error>(old(self).buf@[old(self).pos as int]) && final(self).pos == old(self).pos + 1,
            old(self).pos >= old(self).buf@.len() ==> (r matches Err(e) && e.kind() == EK::EndOfInput) && final(self).pos == old(self).pos,
            final(self).buf == old(self).buf,
    {
        if let Some(b) = self.buf.get(self.pos) {
            self.pos += 1;
            return Ok(*b)
        }
        Err(Error::end_of_input())
    }

    fn peek(&self) -> Result<u8, Error> {
        self.pos.checked_add(1)
            .and_then(|i| self.buf.get(i).copied())
            .ok_or_else(Error::end_of_input)
    }

    fn read_slice(&mut self, n: usize) -> (r: Result<&'b [u8], Error>)
        ensures
            final(self).buf == old(self).buf,
            old(self).pos + n <= old(self).buf@.len() ==> r.is_ok() && r->Ok_0@ == old(self).buf@.subrange(old(self).pos as int, old(self).pos + n) && final(self).pos == old(self).pos + n,
            old(self).pos + n > old(self).buf@.len() ==> (r matches Err(e) && e.kind() == EK::EndOfInput) && final(self).pos == old(self).pos,
    {
        if let Some(b) = self.pos.checked_add(n).and_then(|end: usize| -> (o: Option<&'b [u8]>) ensures o matches Some(x) ==> self.pos <= end <= self.buf@.len() && x@ == self.buf@.subrange(self.pos as int, end as int), o is None ==> !(self.pos <= end <= self.buf@.len()) { self.buf.get(self.pos .. end) }) {
            self.pos += n;
            return Ok(b)
        }
        Err(Error::end_of_input())
    }

    fn read_array<const N: usize>(&mut self) -> (r: Result<[u8; N], Error>)
        ensures
            final(self).buf == old(self).buf,
            old(self).pos + N <= old(self).buf@.len() ==> r.is_ok() && r->Ok_0@ == old(self).buf@.subrange(old(self).pos as int, old(self).pos + N) && final(self).pos == old(self).pos + N,
            old(self).pos + N > old(self).buf@.len() ==> (r matches Err(e) && e.kind() == EK::EndOfInput) && final(self).pos == old(self).pos,
    {
        self.read_slice(N).map(|slice: &[u8]| -> (a: [u8; N]) requires slice@.len() == N ensures a@ == slice@ {
            let mut a = [0; N];
            a.copy_from_slice(slice);
            a
        })
    }

    fn type_of(&self, n: u8) -> Result<Type, Error> {
        Ok(match n {
            0x00 ..= 0x18        => Type::U8,
            0x19                 => Type::U16,
            0x1a                 => Type::U32,
            0x1b                 => Type::U64,
            0x20 ..= 0x37        => Type::I8,
            0x38                 => if self.peek()? < 0x80 { Type::I8  } else { Type::I16 }
            0x39                 => if self.peek()? < 0x80 { Type::I16 } else { Type::I32 }
            0x3a                 => if self.peek()? < 0x80 { Type::I32 } else { Type::I64 }
            0x3b                 => if self.peek()? < 0x80 { Type::I64 } else { Type::Int }
            0x40 ..= 0x5b        => Type::Bytes,
            0x5f                 => Type::BytesIndef,
            0x60 ..= 0x7b        => Type::String,
            0x7f                 => Type::StringIndef,
            0x80 ..= 0x9b        => Type::Array,
            0x9f                 => Type::ArrayIndef,
            0xa0 ..= 0xbb        => Type::Map,
            0xbf                 => Type::MapIndef,
            0xc0 ..= 0xdb        => Type::Tag,
            0xe0 ..= 0xf3 | 0xf8 => Type::Simple,
            0xf4 | 0xf5          => Type::Bool,
            0xf6                 => Type::Null,
            0xf7                 => Type::Undefined,
            0xf9                 => Type::F16,
            0xfa                 => Type::F32,
            0xfb                 => Type::F64,
            0xff                 => Type::Break,
            n                    => Type::Unknown(n)
        })
    }

    pub(crate) fn unsigned(&mut self, b: u8, p: usize) -> (r: Result<u64, Error>)
        ensures
            final(self).buf == old(self).buf,
            b <= 0x17 ==> (r matches Ok(v) && v == b && final(self).pos == old(self).pos),
            b > 0x1b ==> r.is_err() && final(self).pos == old(self).pos,
            b == 0x18 && old(self).pos + 1 <= old(self).buf@.len() ==> (r matches Ok(v) && final(self).pos == old(self).pos + 1),
            b == 0x18 && old(self).pos + 1 <= old(self).buf@.len() ==> (r matches Ok(v) && v == old(self).buf@[old(self).pos as int]),
            b == 0x19 && old(self).pos + 2 <= old(self).buf@.len() ==> (r matches Ok(v) && final(self).pos == old(self).pos + 2),
            b == 0x19 && old(self).pos + 2 <= old(self).buf@.len() ==> (r matches Ok(v) && v as nat == be_val(old(self).buf@.subrange(old(self).pos as int, old(self).pos + 2))),
            b == 0x1b && old(self).pos + 8 <= old(self).buf@.len() ==> (r matches Ok(v) && v as nat == be_val(old(self).buf@.subrange(old(self).pos as int, old(self).pos + 8))),
            b == 0x1b && old(self).pos + 8 > old(self).buf@.len() ==> (r matches Err(e) && e.kind() == EK::EndOfInput && final(self).pos == old(self).pos),
    {
        match b {
            n @ 0 ..= 0x17 => Ok(u64::from(n)),
            0x18 => self.read().map(u64::from),
            0x19 => self.read_array().map(u16_from_be_bytes).map(u64::from),
            0x1a => self.read_array().map(u32_from_be_bytes).map(u64::from),
            0x1b => self.read_array().map(u64_from_be_bytes),
            _    => Err(Error::type_mismatch(self.type_of(b)?)
                .with_message("expected u64")
                .at(p))
        }
    }

    pub fn bytes(&mut self) -> (r: Result<&'b [u8], Error>)
        ensures final(self).buf == old(self).buf,
            old(self).pos <= old(self).buf@.len() ==> final(self).pos <= old(self).buf@.len(),
    {
        let p = self.pos;
        let b = self.read()?;
        if BYTES != type_of(b) || info_of(b) == 31 {
            return Err(Error::type_mismatch(self.type_of(b)?)
                .with_message("expected bytes (definite length)")
                .at(p))
        }
        let n = u64_to_usize(self.unsigned(info_of(b), p)?, p)?;
        self.read_slice(n)
    }

    pub fn u16(&mut self) -> Result<u16, Error> {
        let p = self.pos;
        match self.read()? {
            n @ 0 ..= 0x17 => Ok(u16::from(n)),
            0x18           => self.read().map(u16::from),
            0x19           => self.read_array().map(u16_from_be_bytes),
            b              => Err(Error::type_mismatch(self.type_of(b)?).at(p).with_message("expected u16"))
        }
    }
}

}
fn main() {}
