use vstd::prelude::*;
verus! {
pub trait CborLen<C> {
    spec fn len_spec(&self) -> nat;
    fn cbor_len(&self, ctx: &mut C) -> (r: usize) ensures r == self.len_spec();
}
pub open spec fn head_len(x: nat) -> nat {
    if x <= 0x17 { 1 } else if x <= 0xff { 2 } else if x <= 0xffff { 3 } else if x <= 0xffff_ffff { 5 } else { 9 }
}
impl<C> CborLen<C> for u8 {
    open spec fn len_spec(&self) -> nat { head_len(*self as nat) }
    fn cbor_len(&self, _vx0: &mut C) -> usize {
        if let 0 ..= 0x17 = self { 1 } else { 2 }
    }
}
impl<C> CborLen<C> for u32 {
    open spec fn len_spec(&self) -> nat { head_len(*self as nat) }
    fn cbor_len(&self, _vx0: &mut C) -> usize {
        match self {
            0     ..= 0x17   => 1,
            0x18  ..= 0xff   => 2,
            0x100 ..= 0xffff => 3,
            _                => 5
        }
    }
}
impl<C> CborLen<C> for i16 {
    open spec fn len_spec(&self) -> nat { head_len(if *self >= 0 { *self as nat } else { (-1 - *self) as nat }) }
    fn cbor_len(&self, ctx: &mut C) -> usize {
        let x = if *self >= 0 { *self as u16 } else { (-1 - self) as u16 };
        x.cbor_len(ctx)
    }
}
impl<C> CborLen<C> for u16 {
    open spec fn len_spec(&self) -> nat { head_len(*self as nat) }
    fn cbor_len(&self, _vx0: &mut C) -> usize {
        match self {
            0    ..= 0x17 => 1,
            0x18 ..= 0xff => 2,
            _             => 3
        }
    }
}
impl<C, T: CborLen<C>> CborLen<C> for Option<T> {
    open spec fn len_spec(&self) -> nat { match self { Some(x) => x.len_spec(), None => 1 } }
    fn cbor_len(&self, ctx: &mut C) -> usize {
        if let Some(x) = self {
            x.cbor_len(ctx)
        } else {
            1
        }
    }
}
}
fn main() {}
