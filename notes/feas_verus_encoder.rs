use vstd::prelude::*;
verus! {

pub trait Write {
    type Error;
    spec fn out(&self) -> Seq<u8>;
    fn write_all(&mut self, buf: &[u8]) -> (r: Result<(), Self::Error>)
        ensures r.is_ok() ==> final(self).out() == old(self).out() + buf@;
}

pub struct Error<E> { pub e: E }
impl<E> Error<E> {
    pub fn write(e: E) -> Self { Error { e } }
}

pub open spec fn be16(x: u16) -> Seq<u8> { seq![(x / 256) as u8, (x % 256) as u8] }
pub trait BeBytes<const N: usize>: Sized {
    spec fn be(self) -> Seq<u8>;
    fn to_be_bytes_vx(self) -> (r: [u8; N]) ensures r@ == self.be();
}
impl BeBytes<2> for u16 {
    open spec fn be(self) -> Seq<u8> { be16(self) }
    #[verifier::external_body]
    fn to_be_bytes_vx(self) -> (r: [u8; 2]) { self.to_be_bytes() }
}
const SIGNED: u8 = 0x20;

pub struct Encoder<W> { writer: W }

impl<W: Write> Encoder<W> {
    pub closed spec fn out(&self) -> Seq<u8> { self.writer.out() }

    pub(crate) fn put(&mut self, b: &[u8]) -> (r: Result<&mut Self, Error<W::Error>>)
        ensures r matches Ok(e) ==> (*e).out() == old(self).out() + b@ && *final(e) == *final(self)
    {
        self.writer.write_all(b).map_err(Error::write)?;
        Ok(self)
    }

    pub fn u8(&mut self, x: u8) -> (r: Result<&mut Self, Error<W::Error>>)
        ensures r matches Ok(e) ==> (*e).out() == old(self).out() + (if x <= 0x17 { seq![x] } else { seq![24u8, x] })
    {
        if let 0 ..= 0x17 = x {
            self.put(&[x])
        } else {
            self.put(&[24, x])
        }
    }

    pub fn u16(&mut self, x: u16) -> (r: Result<&mut Self, Error<W::Error>>)
        ensures r matches Ok(e) ==> (*e).out() == old(self).out() + (if x <= 0x17 { seq![x as u8] } else if x <= 0xff { seq![24u8, x as u8] } else { seq![25u8] + be16(x) })
    {
        match x {
            0    ..= 0x17 => self.put(&[x as u8]),
            0x18 ..= 0xff => self.put(&[24, x as u8]),
            _             => self.put(&[25])?.put(&x.to_be_bytes_vx()[..])
        }
    }
}
}
fn main() {}
