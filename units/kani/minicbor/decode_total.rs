// Kani unit `decode_total` (K5): C02 for typed decoding of fixed-shape types - the call returns Ok or Err,
// never panics (Kani reports every reachable panic, arithmetic overflow and out-of-bounds access as a
// failed check), and the position stays within the input.  `Decoder::skip` is replaced by its contract
// (spec/kani_stubs.rs); the real body is C06's business.
use crate::{Decoder, Decode};

fn input<const K: usize>() -> ([u8; K], usize) {
    let a: [u8; K] = kani::any();
    let n: usize = kani::any();
    kani::assume(n <= K);
    (a, n)
}

macro_rules! total {
    // framing (a): first byte(s) fixed to the expected definite header, everything else symbolic
    ($name:ident, $t:ty, $k:expr, [$($hdr:expr),*], $unwind:expr) => {
        #[kani::proof]
        #[kani::unwind($unwind)]
        #[cfg_attr(feature = "alloc", kani::stub(crate::decode::Error::with_message, crate::kani_refspec_stubs::with_message))]
        #[cfg_attr(feature = "alloc", kani::stub(crate::decode::Error::message, crate::kani_refspec_stubs::message))]
        #[kani::stub(crate::decode::Decoder::skip, crate::kani_refspec_stubs::skip_any)]
        fn $name() {
            let (mut a, n) = input::<$k>();
            let hdr: &[u8] = &[$($hdr),*];
            let mut i = 0;
            while i < hdr.len() { a[i] = hdr[i]; i += 1 }
            let buf = &a[.. n];
            let mut d = Decoder::new(buf);
            let r: Result<$t, _> = <$t as Decode<()>>::decode(&mut d, &mut ());
            assert!(d.position() <= n);
            kani::cover!(r.is_ok());
            kani::cover!(r.is_err());
        }
    }
}

// @harness name=c02_duration props=C02 kind=complete tier=thorough note="all inputs `82 <15 symbolic bytes>` of any length <= 16: includes 82 1b ff*8 1a 3b9aca00"
total!(c02_duration, core::time::Duration, 16, [0x82], 6);
// (symbolic bytes behind an INDEFINITE opener `9f` for decode_fields! types ran CBMC out of memory; the indefinite framing is covered
// with concrete structure by c04_fields_indef below)
// @harness name=c02_range_u8 props=C02 kind=complete tier=thorough
total!(c02_range_u8, core::ops::Range<u8>, 6, [0x82], 6);
// @harness name=c02_range_incl_u8 props=C02 kind=complete tier=thorough
total!(c02_range_incl_u8, core::ops::RangeInclusive<u8>, 6, [0x82], 6);
// @harness name=c02_bound_u16 props=C02 kind=complete
total!(c02_bound_u16, core::ops::Bound<u16>, 6, [0x82], 6);
// @harness name=c02_result props=C02 kind=complete
total!(c02_result, Result<u8, i16>, 6, [0x82], 4);
// @harness name=c02_option_u32 props=C02 kind=complete
total!(c02_option_u32, Option<u32>, 6, [], 4);
// @harness name=c02_tuple2 props=C02 kind=complete
total!(c02_tuple2, (u8, i16), 8, [0x82], 4);
// @harness name=c02_array3 props=C02 kind=complete tier=thorough
total!(c02_array3, [u8; 3], 8, [0x83], 6);
// @harness name=c02_nonzero props=C02 kind=complete
total!(c02_nonzero, core::num::NonZeroU16, 6, [], 4);
// @harness name=c02_char props=C02 kind=complete
total!(c02_char, char, 6, [], 4);
// @harness name=c02_tagged props=C02 kind=complete
total!(c02_tagged, crate::data::Tagged<7, u16>, 8, [], 4);
// @harness name=c02_int props=C02 kind=complete
total!(c02_int, crate::data::Int, 10, [], 4);

// the type-directed family the Duration / SystemTime constructors are exposed to: heads concrete, values symbolic
// @harness name=c02_duration_values props=C02 kind=complete note="82 1b <secs> 1a <nanos>, all 2^96 (secs, nanos)"
#[kani::proof]
#[kani::unwind(4)]
#[cfg_attr(feature = "alloc", kani::stub(crate::decode::Error::with_message, crate::kani_refspec_stubs::with_message))]
#[cfg_attr(feature = "alloc", kani::stub(crate::decode::Error::message, crate::kani_refspec_stubs::message))]
#[kani::stub(crate::decode::Decoder::skip, crate::kani_refspec_stubs::skip_any)]
fn c02_duration_values() {
    let s: [u8; 8] = kani::any();
    let n: [u8; 4] = kani::any();
    let buf = [0x82u8, 0x1b, s[0], s[1], s[2], s[3], s[4], s[5], s[6], s[7], 0x1a, n[0], n[1], n[2], n[3]];
    let mut d = Decoder::new(&buf);
    let r: Result<core::time::Duration, _> = Decode::decode(&mut d, &mut ());
    assert!(d.position() <= 15);
    if let Ok(v) = &r {
        // when it succeeds the value is the one the two fields denote (no 128-bit arithmetic here: CBMC cost)
        let secs = u64::from_be_bytes(s); let nanos = u32::from_be_bytes(n);
        if nanos < 1_000_000_000 { assert!(v.as_secs() == secs && v.subsec_nanos() == nanos) }
        else { assert!(v.as_secs() > secs || v.subsec_nanos() != nanos) }
    }
    kani::cover!(r.is_ok());
}

// @harness name=c02_systemtime_values props=C02 kind=complete features=std note="82 1b <secs> 1a <nanos>: UNIX_EPOCH.checked_add must never panic"
#[cfg(feature = "std")]
#[kani::proof]
#[kani::unwind(4)]
#[kani::stub(crate::decode::Error::with_message, crate::kani_refspec_stubs::with_message)]
#[kani::stub(crate::decode::Error::message, crate::kani_refspec_stubs::message)]
#[kani::stub(crate::decode::Decoder::skip, crate::kani_refspec_stubs::skip_any)]
fn c02_systemtime_values() {
    let s: [u8; 8] = kani::any();
    let n: [u8; 4] = kani::any();
    let buf = [0x82u8, 0x1b, s[0], s[1], s[2], s[3], s[4], s[5], s[6], s[7], 0x1a, n[0], n[1], n[2], n[3]];
    let mut d = Decoder::new(&buf);
    let r: Result<std::time::SystemTime, _> = Decode::decode(&mut d, &mut ());
    assert!(d.position() <= 15);
    kani::cover!(r.is_ok());
    kani::cover!(r.is_err());
}

// decode_fields! types (Duration, ranges, socket addresses) from an INDEFINITE-length array: the value is right and the
// break is consumed - the position ends after the `ff`, so the next item decodes (C04 "leaves the position exactly at the
// end of the item"; C01 for the re-framed encoding).  Structure concrete, field values symbolic.
// @harness name=c04_fields_indef props=C04,C01,C02 kind=complete note="9f 18 a 18 b ff + junk as Range<u8> / RangeInclusive<u8>; 9f 1a secs 1a nanos ff as Duration"
#[kani::proof]
#[kani::unwind(5)]
#[cfg_attr(feature = "alloc", kani::stub(crate::decode::Error::with_message, crate::kani_refspec_stubs::with_message))]
#[cfg_attr(feature = "alloc", kani::stub(crate::decode::Error::message, crate::kani_refspec_stubs::message))]
#[kani::stub(crate::decode::Decoder::skip, crate::kani_refspec_stubs::skip_leaf)]
fn c04_fields_indef() {
    let a: u8 = kani::any(); let b: u8 = kani::any(); let j: u8 = kani::any();
    let buf = [0x9fu8, 0x18, a, 0x18, b, 0xff, j];
    let mut d = Decoder::new(&buf);
    match <core::ops::Range<u8> as Decode<()>>::decode(&mut d, &mut ()) {
        Ok(r) => { assert!(r.start == a && r.end == b); assert!(d.position() == 6) }
        Err(_) => assert!(false)
    }
    let s: [u8; 4] = kani::any(); let n: [u8; 4] = kani::any();
    let buf = [0x9fu8, 0x1a, s[0], s[1], s[2], s[3], 0x1a, n[0], n[1], n[2], n[3], 0xff, j];
    let mut d = Decoder::new(&buf);
    let r: Result<core::time::Duration, _> = Decode::decode(&mut d, &mut ());
    if u32::from_be_bytes(n) < 1_000_000_000 {
        match r { Ok(v) => { assert!(v.as_secs() == u32::from_be_bytes(s) as u64 && v.subsec_nanos() == u32::from_be_bytes(n)); assert!(d.position() == 12) } Err(_) => assert!(false) }
    }
    kani::cover!(true);
}

// ---- fixed-size arrays go through the `unsafe` ArrayVec (MaybeUninit buffer, length-tracked Drop, forget-on-success):
// every element decoded so far is dropped exactly once on every path (too few, too many, element error, success), and
// Kani's pointer / validity checks run over `push`, `into_array` and `Drop`.  Instance proofs (N = 2 and N = 0).
static mut MADE: u32 = 0;
static mut DROPPED: u32 = 0;
struct Dc(#[allow(dead_code)] u8);
impl<'b, C> Decode<'b, C> for Dc {
    fn decode(d: &mut Decoder<'b>, _: &mut C) -> Result<Self, crate::decode::Error> {
        let v = d.u8()?;
        unsafe { MADE += 1 }
        Ok(Dc(v))
    }
}
impl Drop for Dc { fn drop(&mut self) { unsafe { DROPPED += 1 } } }

// @harness name=c02_arrayvec_drop2 props=C02 kind=bounded bound="[Dc; 2] from every input of <= 5 bytes (definite and indefinite framing); element loop unwound 6 times" tier=thorough
#[kani::proof]
#[kani::unwind(6)]
#[cfg_attr(feature = "alloc", kani::stub(crate::decode::Error::with_message, crate::kani_refspec_stubs::with_message))]
#[cfg_attr(feature = "alloc", kani::stub(crate::decode::Error::message, crate::kani_refspec_stubs::message))]
fn c02_arrayvec_drop2() {
    let (a, n) = input::<5>();
    let buf = &a[.. n];
    let mut d = Decoder::new(buf);
    let r: Result<[Dc; 2], _> = Decode::decode(&mut d, &mut ());
    assert!(d.position() <= n);
    match r {
        Ok(arr) => { unsafe { assert!(MADE == 2 && DROPPED == 0) } drop(arr); unsafe { assert!(DROPPED == 2) } }
        Err(_) => unsafe { assert!(DROPPED == MADE) }                       // nothing leaked, nothing dropped twice
    }
    kani::cover!(unsafe { MADE } == 2);
}

// @harness name=c02_arrayvec_drop_concrete props=C02 kind=complete tier=thorough note="framing concrete (82 / 83 / 81 / 9f..ff), element bytes symbolic: success, too many, too few, element error"
#[kani::proof]
#[kani::unwind(6)]
#[cfg_attr(feature = "alloc", kani::stub(crate::decode::Error::with_message, crate::kani_refspec_stubs::with_message))]
#[cfg_attr(feature = "alloc", kani::stub(crate::decode::Error::message, crate::kani_refspec_stubs::message))]
fn c02_arrayvec_drop_concrete() {
    let x: u8 = kani::any(); let y: u8 = kani::any(); let z: u8 = kani::any();
    let which: u8 = kani::any();
    let (buf, len): ([u8; 7], usize) = match which {
        0 => ([0x82, 0x18, x, 0x18, y, 0, 0], 5),             // exactly two
        1 => ([0x83, 0x18, x, 0x18, y, 0x18, z], 7),          // one too many
        2 => ([0x81, 0x18, x, 0, 0, 0, 0], 3),                // one too few
        3 => ([0x82, 0x18, x, 0xf6, 0, 0, 0], 4),             // second element is not an integer
        _ => ([0x9f, 0x18, x, 0x18, y, 0xff, 0], 6),          // indefinite framing, two elements
    };
    let mut d = Decoder::new(&buf[.. len]);
    let r: Result<[Dc; 2], _> = Decode::decode(&mut d, &mut ());
    match r {
        Ok(arr) => { assert!(which == 0 || which >= 4, "an array with too many / too few / ill-typed elements was accepted");
                     assert!(d.position() == len, "the whole array item (incl. the break of the indefinite form) must be consumed");
                     unsafe { assert!(MADE == 2 && DROPPED == 0) } drop(arr); unsafe { assert!(DROPPED == 2) } }
        Err(_) => { assert!(which >= 1 && which <= 3); unsafe { assert!(DROPPED == MADE) } }
    }
    kani::cover!(which == 1);
}

// a wider float is never accepted by the f32 accessor: `fb` + any 8 bytes is an error and a position within the input
// @harness name=c12_f32_rejects_f64 props=C12,C04 kind=complete
#[kani::proof]
fn c12_f32_rejects_f64() {
    let b: [u8; 8] = kani::any();
    let buf = [0xfbu8, b[0], b[1], b[2], b[3], b[4], b[5], b[6], b[7], 0x00];
    let mut d = Decoder::new(&buf);
    let r = d.f32();
    assert!(r.is_err());
    assert!(d.position() <= buf.len());
    kani::cover!(true);
}

// std-only fixed-shape types (net addresses): symbolic bytes behind the expected header
// @harness name=c02_ipv4 props=C02 kind=complete features=std
#[cfg(feature = "std")]
total!(c02_ipv4, std::net::Ipv4Addr, 8, [], 6);
// @harness name=c02_ipaddr props=C02 kind=complete features=std tier=thorough
#[cfg(feature = "std")]
total!(c02_ipaddr, std::net::IpAddr, 10, [0x82], 6);
// @harness name=c02_ipv6 props=C02 kind=complete features=std
#[cfg(feature = "std")]
total!(c02_ipv6, std::net::Ipv6Addr, 20, [], 18);

// Kani mirror of the Verus contract of `datatype()` / `type_of` (counterexample provider): the data-model type table of
// RFC 8949 incl. the "narrowest signed type" rule, for every initial byte and every first argument byte.
// @harness name=c04_datatype_table props=C04,C05,C11,C01 kind=complete
#[kani::proof]
fn c04_datatype_table() {
    use crate::data::Type;
    let b: u8 = kani::any(); let nx: u8 = kani::any();
    let buf = [b, nx];
    let d = Decoder::new(&buf);
    let want = match b {
        0x00 ..= 0x18 => Type::U8, 0x19 => Type::U16, 0x1a => Type::U32, 0x1b => Type::U64,
        0x20 ..= 0x37 => Type::I8,
        0x38 => if nx < 0x80 { Type::I8 } else { Type::I16 },
        0x39 => if nx < 0x80 { Type::I16 } else { Type::I32 },
        0x3a => if nx < 0x80 { Type::I32 } else { Type::I64 },
        0x3b => if nx < 0x80 { Type::I64 } else { Type::Int },
        0x40 ..= 0x5b => Type::Bytes, 0x5f => Type::BytesIndef,
        0x60 ..= 0x7b => Type::String, 0x7f => Type::StringIndef,
        0x80 ..= 0x9b => Type::Array, 0x9f => Type::ArrayIndef,
        0xa0 ..= 0xbb => Type::Map, 0xbf => Type::MapIndef,
        0xc0 ..= 0xdb => Type::Tag,
        0xe0 ..= 0xf3 | 0xf8 => Type::Simple,
        0xf4 | 0xf5 => Type::Bool, 0xf6 => Type::Null, 0xf7 => Type::Undefined,
        0xf9 => Type::F16, 0xfa => Type::F32, 0xfb => Type::F64, 0xff => Type::Break,
        n => Type::Unknown(n),
    };
    match d.datatype() { Ok(t) => assert!(t == want, "datatype() disagrees with the RFC 8949 type table"), Err(_) => assert!(false) }
    kani::cover!(b == 0x3b && nx == 0x80);
}

// Kani mirror of the Verus step contracts of the chunk iterators (counterexample provider): a chunked byte string
// `5f 41 x 42 y z ff` yields exactly its chunks, then the end, and the break is consumed; cut between chunks (no break) the
// iterator reports end-of-input instead of ending quietly.
// @harness name=c04_bytes_iter_steps props=C04,C02,C06 kind=complete
#[kani::proof]
#[kani::unwind(6)]
fn c04_bytes_iter_steps() {
    let x: u8 = kani::any(); let y: u8 = kani::any(); let z: u8 = kani::any(); let j: u8 = kani::any();
    let buf = [0x5fu8, 0x41, x, 0x42, y, z, 0xff, j];
    let mut d = Decoder::new(&buf);
    {
        let mut it = match d.bytes_iter() { Ok(it) => it, Err(_) => { assert!(false); return } };
        match it.next() { Some(Ok(c)) => assert!(c.len() == 1 && c[0] == x && c.as_ptr() == buf[2 ..].as_ptr(), "first chunk"), _ => assert!(false, "first chunk missing") }
        match it.next() { Some(Ok(c)) => assert!(c.len() == 2 && c[0] == y && c[1] == z, "second chunk"), _ => assert!(false, "second chunk missing") }
        assert!(it.next().is_none(), "iteration must end at the break");
    }
    assert!(d.position() == 7, "the break must be consumed");
    // the same string cut right after the first chunk: not a quiet end
    let mut d = Decoder::new(&buf[.. 3]);
    {
        let mut it = match d.bytes_iter() { Ok(it) => it, Err(_) => { assert!(false); return } };
        assert!(matches!(it.next(), Some(Ok(_))));
        match it.next() { Some(Err(e)) => assert!(e.is_end_of_input()), _ => assert!(false, "end of input between chunks must be an error, not the end of the iteration") }
    }
    kani::cover!(true);
}

// fixed-size arrays: the indefinite form is consumed up to and including its break; too many elements is an error
// @harness name=c04_array_framing props=C04,C01,C02 kind=complete note="9f x y ff j as [u8; 2] (position 6); 83 x y z as [u8; 2] (error)"
#[kani::proof]
#[kani::unwind(5)]
#[cfg_attr(feature = "alloc", kani::stub(crate::decode::Error::with_message, crate::kani_refspec_stubs::with_message))]
#[cfg_attr(feature = "alloc", kani::stub(crate::decode::Error::message, crate::kani_refspec_stubs::message))]
fn c04_array_framing() {
    let x: u8 = kani::any(); let y: u8 = kani::any(); let z: u8 = kani::any();
    let buf = [0x9fu8, 0x18, x, 0x18, y, 0xff, z];
    let mut d = Decoder::new(&buf);
    match <[u8; 2] as Decode<()>>::decode(&mut d, &mut ()) {
        Ok(a) => { assert!(a[0] == x && a[1] == y); assert!(d.position() == 6, "the break of the indefinite form must be consumed") }
        Err(_) => assert!(false)
    }
    let buf = [0x83u8, 0x18, x, 0x18, y, 0x18, z];
    let mut d = Decoder::new(&buf);
    let r = <[u8; 2] as Decode<()>>::decode(&mut d, &mut ());
    assert!(r.is_err(), "an array with more elements than the type has was accepted");
    kani::cover!(true);
}
