// Kani unit `roundtrip` (K4): for fixed-size built-in codec types, over ALL values of the type:
//   C01  decode(encode(v)) == v and the decoder stops exactly after the bytes produced
//        (the bytes after the encoding are symbolic junk);
//   C07  CborLen::cbor_len(v) == number of bytes written;
//   C03  (integers / bool / char / unit types) the bytes are the RFC 8949 preferred serialisation.
// Loop-free harnesses over the full value domain: complete per instantiation (not bounded).
// Macro-generated impls (encode_basic!, encode_nonzero!, encode_atomic!, encode_tuples!, decode_*) cannot be
// reached by extraction; these harnesses are where they are verified.
use crate::{Encoder, Decoder, Encode, Decode, CborLen};
use crate::encode::write::Cursor;
use crate::kani_refspec::*;

/// encode `v` into a 24-byte cursor whose initial contents are symbolic; returns (buffer, bytes written)
fn enc<T: Encode<()>>(v: &T) -> ([u8; 24], usize) {
    let init: [u8; 24] = kani::any();
    let mut e = Encoder::new(Cursor::new(init));
    let ok = v.encode(&mut e, &mut ()).is_ok();
    assert!(ok);                                         // 24 bytes always suffice for the types below
    let c = e.into_writer();
    let n = c.position();
    (c.into_inner(), n)
}

macro_rules! rt {
    // $eq: closure-like comparison of original and decoded value
    ($name:ident, $t:ty, |$v:ident| $mk:expr, |$a:ident, $b:ident| $eq:expr) => {
        #[kani::proof]
        #[cfg_attr(feature = "alloc", kani::stub(crate::decode::Error::with_message, crate::kani_refspec_stubs::with_message))]
        #[cfg_attr(feature = "alloc", kani::stub(crate::decode::Error::message, crate::kani_refspec_stubs::message))]
        #[kani::stub(crate::decode::Decoder::skip, crate::kani_refspec_stubs::skip_leaf)]
        #[kani::unwind(6)]      // field loops of decode_fields! (<= 3 iterations), memcmp of <= 4 bytes; unwinding assertions stay on
        fn $name() {
            let $v: $t = $mk;
            let (buf, n) = enc(&$v);
            assert!($v.cbor_len(&mut ()) == n, "cbor_len(v) != number of bytes written");   // C07
            let mut d = Decoder::new(&buf[..]);
            let r: Result<$t, _> = <$t as Decode<()>>::decode(&mut d, &mut ());
            match &r {
                Ok(w) => { let ($a, $b) = (&$v, w); assert!($eq, "decode(encode(v)) != v");
                           assert!(d.position() == n, "decoder did not stop exactly after the bytes produced") }   // C01
                Err(_) => assert!(false, "decode(encode(v)) failed")
            }
            kani::cover!(n >= 1);
        }
    }
}

macro_rules! rt_int {
    ($name:ident, $t:ty) => {
        #[kani::proof]
        fn $name() {
            let v: $t = kani::any();
            let (buf, n) = enc(&v);
            let (want, wn) = pref_int(v as i128);
            assert!(n == wn && prefix_eq(&buf[..], &want, wn), "bytes differ from the RFC 8949 preferred serialisation");   // C03
            assert!(v.cbor_len(&mut ()) == n, "cbor_len(v) != number of bytes written");                                     // C07
            let mut d = Decoder::new(&buf[..]);
            let r: Result<$t, _> = <$t as Decode<()>>::decode(&mut d, &mut ());
            match &r { Ok(w) => { assert!(*w == v, "decode(encode(v)) != v"); assert!(d.position() == n, "decoder did not stop exactly after the bytes produced") }
                       Err(_) => assert!(false, "decode(encode(v)) failed") }
            kani::cover!(n == 9 || core::mem::size_of::<$t>() < 8);
        }
    }
}

// @harness name=c01_u8 props=C01,C03,C07 kind=complete
rt_int!(c01_u8, u8);
// @harness name=c01_u16 props=C01,C03,C07 kind=complete
rt_int!(c01_u16, u16);
// @harness name=c01_u32 props=C01,C03,C07 kind=complete
rt_int!(c01_u32, u32);
// @harness name=c01_u64 props=C01,C03,C07 kind=complete
rt_int!(c01_u64, u64);
// @harness name=c01_i8 props=C01,C03,C07 kind=complete
rt_int!(c01_i8, i8);
// @harness name=c01_i16 props=C01,C03,C07 kind=complete
rt_int!(c01_i16, i16);
// @harness name=c01_i32 props=C01,C03,C07 kind=complete
rt_int!(c01_i32, i32);
// @harness name=c01_i64 props=C01,C03,C07 kind=complete
rt_int!(c01_i64, i64);
// @harness name=c01_usize props=C01,C03,C07 kind=complete
rt_int!(c01_usize, usize);
// @harness name=c01_isize props=C01,C03,C07 kind=complete
rt_int!(c01_isize, isize);

// @harness name=c01_bool props=C01,C03,C07 kind=complete
rt!(c01_bool, bool, |v| kani::any(), |a, b| a == b);
// @harness name=c01_char props=C01,C03,C07 kind=complete
rt!(c01_char, char, |v| kani::any(), |a, b| a == b);
// @harness name=c01_f32 props=C01,C07,C12 kind=complete
rt!(c01_f32, f32, |v| f32::from_bits(kani::any()), |a, b| a.to_bits() == b.to_bits());
// @harness name=c01_f64 props=C01,C07,C12 kind=complete
rt!(c01_f64, f64, |v| f64::from_bits(kani::any()), |a, b| a.to_bits() == b.to_bits());
// @harness name=c01_unit props=C01,C03,C07 kind=complete
rt!(c01_unit, (), |v| (), |a, b| a == b);
// @harness name=c01_phantom props=C01,C07 kind=complete
rt!(c01_phantom, core::marker::PhantomData<u8>, |v| core::marker::PhantomData, |a, b| a == b);
// @harness name=c01_int props=C01,C03,C07 kind=complete
rt!(c01_int, crate::data::Int, |v| { let n: u64 = kani::any(); if kani::any() { crate::data::Int::from(n) } else { crate::data::Int::try_from(-1i128 - n as i128).unwrap() } }, |a, b| a == b);
// @harness name=c01_tag props=C01,C03,C07 kind=complete
rt!(c01_tag, crate::data::Tag, |v| crate::data::Tag::new(kani::any()), |a, b| a == b);
// @harness name=c01_tagged props=C01,C07 kind=complete
rt!(c01_tagged, crate::data::Tagged<7, u16>, |v| crate::data::Tagged::new(kani::any()), |a, b| a.value() == b.value());
// @harness name=c01_option_u32 props=C01,C07 kind=complete
rt!(c01_option_u32, Option<u32>, |v| kani::any(), |a, b| a == b);
// @harness name=c01_result props=C01,C07 kind=complete
rt!(c01_result, Result<u8, i16>, |v| if kani::any() { Ok(kani::any()) } else { Err(kani::any()) }, |a, b| a == b);
// @harness name=c01_wrapping props=C01,C07 kind=complete
rt!(c01_wrapping, core::num::Wrapping<i32>, |v| core::num::Wrapping(kani::any()), |a, b| a == b);
// @harness name=c01_cell props=C01,C07 kind=complete
rt!(c01_cell, core::cell::Cell<u8>, |v| core::cell::Cell::new(kani::any()), |a, b| a.get() == b.get());
// @harness name=c01_nz_u8 props=C01,C07 kind=complete
rt!(c01_nz_u8, core::num::NonZeroU8, |v| kani::any(), |a, b| a == b);
// @harness name=c01_nz_u16 props=C01,C07 kind=complete
rt!(c01_nz_u16, core::num::NonZeroU16, |v| kani::any(), |a, b| a == b);
// @harness name=c01_nz_u32 props=C01,C07 kind=complete
rt!(c01_nz_u32, core::num::NonZeroU32, |v| kani::any(), |a, b| a == b);
// @harness name=c01_nz_u64 props=C01,C07 kind=complete
rt!(c01_nz_u64, core::num::NonZeroU64, |v| kani::any(), |a, b| a == b);
// @harness name=c01_nz_i8 props=C01,C07 kind=complete
rt!(c01_nz_i8, core::num::NonZeroI8, |v| kani::any(), |a, b| a == b);
// @harness name=c01_nz_i16 props=C01,C07 kind=complete
rt!(c01_nz_i16, core::num::NonZeroI16, |v| kani::any(), |a, b| a == b);
// @harness name=c01_nz_i32 props=C01,C07 kind=complete
rt!(c01_nz_i32, core::num::NonZeroI32, |v| kani::any(), |a, b| a == b);
// @harness name=c01_nz_i64 props=C01,C07 kind=complete
rt!(c01_nz_i64, core::num::NonZeroI64, |v| kani::any(), |a, b| a == b);
// @harness name=c01_nz_usize props=C01,C07 kind=complete
rt!(c01_nz_usize, core::num::NonZeroUsize, |v| kani::any(), |a, b| a == b);
// @harness name=c01_nz_isize props=C01,C07 kind=complete
rt!(c01_nz_isize, core::num::NonZeroIsize, |v| kani::any(), |a, b| a == b);
// @harness name=c01_tuple2 props=C01,C07 kind=complete tier=thorough
rt!(c01_tuple2, (u8, i16), |v| (kani::any(), kani::any()), |a, b| a == b);
// @harness name=c01_tuple3 props=C01,C07 kind=complete tier=thorough
rt!(c01_tuple3, (bool, u16, i8), |v| (kani::any(), kani::any(), kani::any()), |a, b| a == b);
// @harness name=c01_array_u8_3 props=C01,C07 kind=complete tier=thorough
rt!(c01_array_u8_3, [u8; 3], |v| kani::any(), |a, b| a == b);
// @harness name=c01_array_u16_2 props=C01,C07 kind=complete tier=thorough
rt!(c01_array_u16_2, [u16; 2], |v| kani::any(), |a, b| a == b);
// @harness name=c01_bytearray4 props=C01,C07 kind=complete
rt!(c01_bytearray4, crate::bytes::ByteArray<4>, |v| crate::bytes::ByteArray::from(kani::any::<[u8; 4]>()), |a, b| a == b);
// @harness name=c01_range props=C01,C07 kind=complete tier=thorough note="~6 min: decode_fields! loops"
rt!(c01_range, core::ops::Range<u8>, |v| kani::any::<u8>() .. kani::any::<u8>(), |a, b| a == b);
// @harness name=c01_range_incl props=C01,C07 kind=complete tier=thorough note="~6 min: decode_fields! loops"
rt!(c01_range_incl, core::ops::RangeInclusive<u8>, |v| kani::any::<u8>() ..= kani::any::<u8>(), |a, b| a == b);
// @harness name=c01_range_from props=C01,C07 kind=complete
rt!(c01_range_from, core::ops::RangeFrom<u16>, |v| kani::any::<u16>() .., |a, b| a == b);
// @harness name=c01_range_to props=C01,C07 kind=complete
rt!(c01_range_to, core::ops::RangeTo<u16>, |v| .. kani::any::<u16>(), |a, b| a == b);
// @harness name=c01_bound props=C01,C07 kind=complete
rt!(c01_bound, core::ops::Bound<u8>, |v| { let k: u8 = kani::any(); if k == 0 { core::ops::Bound::Included(kani::any()) } else if k == 1 { core::ops::Bound::Excluded(kani::any()) } else { core::ops::Bound::Unbounded } }, |a, b| a == b);
// @harness name=c01_duration props=C01,C07 kind=complete tier=thorough note="~6 min: decode_fields! loops"
rt!(c01_duration, core::time::Duration, |v| { let n: u32 = kani::any(); kani::assume(n < 1_000_000_000); core::time::Duration::new(kani::any(), n) }, |a, b| a == b);

// ---- known finding D2 (see known_findings.json): this harness asserts the CORRECT behaviour on exactly the
// listed input class and therefore FAILS while the defect exists; every other harness / contract excludes the class.
// RFC 8949 3.3: simple values 0..=23 live in the initial byte; `f8 xx` is well-formed only for xx >= 32;
// values 24..=31 have no well-formed encoding at all.
// @harness name=kf_d2_simple_reserved props=C03,C11 kind=complete
#[kani::proof]
fn kf_d2_simple_reserved() {
    let x: u8 = kani::any();
    kani::assume(20 <= x && x <= 31);
    let init: [u8; 4] = kani::any();
    let mut e = Encoder::new(Cursor::new(init));
    let ok = e.simple(x).is_ok();
    let c = e.into_writer();
    let n = c.position();
    let buf = c.into_inner();
    if x < 24 { assert!(ok && n == 1 && buf[0] == 0xe0 | x) } else { assert!(!ok) }
}

// ---- more instantiations of macro-generated / composite impls
// @harness name=c01_refcell props=C01,C07 kind=complete
rt!(c01_refcell, core::cell::RefCell<u8>, |v| core::cell::RefCell::new(kani::any()), |a, b| *a.borrow() == *b.borrow());
// @harness name=c01_option_bool props=C01,C07 kind=complete
rt!(c01_option_bool, Option<bool>, |v| kani::any(), |a, b| a == b);
// @harness name=c01_atomic_u8 props=C01,C07 kind=complete
rt!(c01_atomic_u8, core::sync::atomic::AtomicU8, |v| core::sync::atomic::AtomicU8::new(kani::any()),
    |a, b| a.load(core::sync::atomic::Ordering::SeqCst) == b.load(core::sync::atomic::Ordering::SeqCst));
// @harness name=c01_atomic_i32 props=C01,C07 kind=complete
rt!(c01_atomic_i32, core::sync::atomic::AtomicI32, |v| core::sync::atomic::AtomicI32::new(kani::any()),
    |a, b| a.load(core::sync::atomic::Ordering::SeqCst) == b.load(core::sync::atomic::Ordering::SeqCst));
// @harness name=c01_atomic_u64 props=C01,C07 kind=complete
rt!(c01_atomic_u64, core::sync::atomic::AtomicU64, |v| core::sync::atomic::AtomicU64::new(kani::any()),
    |a, b| a.load(core::sync::atomic::Ordering::SeqCst) == b.load(core::sync::atomic::Ordering::SeqCst));
// @harness name=c01_atomic_bool props=C01,C07 kind=complete
rt!(c01_atomic_bool, core::sync::atomic::AtomicBool, |v| core::sync::atomic::AtomicBool::new(kani::any()),
    |a, b| a.load(core::sync::atomic::Ordering::SeqCst) == b.load(core::sync::atomic::Ordering::SeqCst));
// @harness name=c01_ipv4 props=C01,C07 kind=complete features=std
#[cfg(feature = "std")]
rt!(c01_ipv4, std::net::Ipv4Addr, |v| std::net::Ipv4Addr::from(kani::any::<[u8; 4]>()), |a, b| a == b);
// @harness name=c01_ipaddr_v4 props=C01,C07 kind=complete features=std
#[cfg(feature = "std")]
rt!(c01_ipaddr_v4, std::net::IpAddr, |v| std::net::IpAddr::V4(std::net::Ipv4Addr::from(kani::any::<[u8; 4]>())), |a, b| a == b);
// @harness name=c01_sockaddr_v4 props=C01,C07 kind=complete features=std tier=thorough
#[cfg(feature = "std")]
rt!(c01_sockaddr_v4, std::net::SocketAddrV4, |v| std::net::SocketAddrV4::new(std::net::Ipv4Addr::from(kani::any::<[u8; 4]>()), kani::any()), |a, b| a == b);
// @harness name=c01_systemtime props=C01,C07 kind=complete features=std tier=thorough
#[cfg(feature = "std")]
rt!(c01_systemtime, std::time::SystemTime, |v| { let n: u32 = kani::any(); kani::assume(n < 1_000_000_000); let s: u32 = kani::any();
      std::time::UNIX_EPOCH + core::time::Duration::new(s as u64, n) }, |a, b| a == b);

// ---- encode_tuples! / decode_tuples!: one row per arity (1..=16); elements are one-byte integers so that position i of the
// output is element i.  Encode side for every arity, decode side for arities 4, 8, 12, 16.

// @harness name=c03_tuple_01 props=C03,C01,C07 kind=complete
#[kani::proof]
fn c03_tuple_01() {
    let v: [u8; 1] = kani::any();
    kani::assume(v[0] < 24);
    let t: (u8, ) = (v[0], );
    let (buf, n) = enc(&t);
    assert!(n == 2 && buf[0] == 0x81);
    assert!(buf[1] == v[0]);
    assert!(t.cbor_len(&mut ()) == n);
    kani::cover!(true);
}
// @harness name=c03_tuple_02 props=C03,C01,C07 kind=complete
#[kani::proof]
fn c03_tuple_02() {
    let v: [u8; 2] = kani::any();
    kani::assume(v[0] < 24 && v[1] < 24);
    let t: (u8, u8, ) = (v[0], v[1], );
    let (buf, n) = enc(&t);
    assert!(n == 3 && buf[0] == 0x82);
    assert!(buf[1] == v[0] && buf[2] == v[1]);
    assert!(t.cbor_len(&mut ()) == n);
    kani::cover!(true);
}
// @harness name=c03_tuple_03 props=C03,C01,C07 kind=complete
#[kani::proof]
fn c03_tuple_03() {
    let v: [u8; 3] = kani::any();
    kani::assume(v[0] < 24 && v[1] < 24 && v[2] < 24);
    let t: (u8, u8, u8, ) = (v[0], v[1], v[2], );
    let (buf, n) = enc(&t);
    assert!(n == 4 && buf[0] == 0x83);
    assert!(buf[1] == v[0] && buf[2] == v[1] && buf[3] == v[2]);
    assert!(t.cbor_len(&mut ()) == n);
    kani::cover!(true);
}
// @harness name=c03_tuple_04 props=C03,C01,C07 kind=complete
#[kani::proof]
fn c03_tuple_04() {
    let v: [u8; 4] = kani::any();
    kani::assume(v[0] < 24 && v[1] < 24 && v[2] < 24 && v[3] < 24);
    let t: (u8, u8, u8, u8, ) = (v[0], v[1], v[2], v[3], );
    let (buf, n) = enc(&t);
    assert!(n == 5 && buf[0] == 0x84);
    assert!(buf[1] == v[0] && buf[2] == v[1] && buf[3] == v[2] && buf[4] == v[3]);
    assert!(t.cbor_len(&mut ()) == n);
    kani::cover!(true);
}
// @harness name=c03_tuple_05 props=C03,C01,C07 kind=complete
#[kani::proof]
fn c03_tuple_05() {
    let v: [u8; 5] = kani::any();
    kani::assume(v[0] < 24 && v[1] < 24 && v[2] < 24 && v[3] < 24 && v[4] < 24);
    let t: (u8, u8, u8, u8, u8, ) = (v[0], v[1], v[2], v[3], v[4], );
    let (buf, n) = enc(&t);
    assert!(n == 6 && buf[0] == 0x85);
    assert!(buf[1] == v[0] && buf[2] == v[1] && buf[3] == v[2] && buf[4] == v[3] && buf[5] == v[4]);
    assert!(t.cbor_len(&mut ()) == n);
    kani::cover!(true);
}
// @harness name=c03_tuple_06 props=C03,C01,C07 kind=complete
#[kani::proof]
fn c03_tuple_06() {
    let v: [u8; 6] = kani::any();
    kani::assume(v[0] < 24 && v[1] < 24 && v[2] < 24 && v[3] < 24 && v[4] < 24 && v[5] < 24);
    let t: (u8, u8, u8, u8, u8, u8, ) = (v[0], v[1], v[2], v[3], v[4], v[5], );
    let (buf, n) = enc(&t);
    assert!(n == 7 && buf[0] == 0x86);
    assert!(buf[1] == v[0] && buf[2] == v[1] && buf[3] == v[2] && buf[4] == v[3] && buf[5] == v[4] && buf[6] == v[5]);
    assert!(t.cbor_len(&mut ()) == n);
    kani::cover!(true);
}
// @harness name=c03_tuple_07 props=C03,C01,C07 kind=complete tier=thorough
#[kani::proof]
fn c03_tuple_07() {
    let v: [u8; 7] = kani::any();
    kani::assume(v[0] < 24 && v[1] < 24 && v[2] < 24 && v[3] < 24 && v[4] < 24 && v[5] < 24 && v[6] < 24);
    let t: (u8, u8, u8, u8, u8, u8, u8, ) = (v[0], v[1], v[2], v[3], v[4], v[5], v[6], );
    let (buf, n) = enc(&t);
    assert!(n == 8 && buf[0] == 0x87);
    assert!(buf[1] == v[0] && buf[2] == v[1] && buf[3] == v[2] && buf[4] == v[3] && buf[5] == v[4] && buf[6] == v[5] && buf[7] == v[6]);
    assert!(t.cbor_len(&mut ()) == n);
    kani::cover!(true);
}
// @harness name=c03_tuple_08 props=C03,C01,C07 kind=complete tier=thorough
#[kani::proof]
fn c03_tuple_08() {
    let v: [u8; 8] = kani::any();
    kani::assume(v[0] < 24 && v[1] < 24 && v[2] < 24 && v[3] < 24 && v[4] < 24 && v[5] < 24 && v[6] < 24 && v[7] < 24);
    let t: (u8, u8, u8, u8, u8, u8, u8, u8, ) = (v[0], v[1], v[2], v[3], v[4], v[5], v[6], v[7], );
    let (buf, n) = enc(&t);
    assert!(n == 9 && buf[0] == 0x88);
    assert!(buf[1] == v[0] && buf[2] == v[1] && buf[3] == v[2] && buf[4] == v[3] && buf[5] == v[4] && buf[6] == v[5] && buf[7] == v[6] && buf[8] == v[7]);
    assert!(t.cbor_len(&mut ()) == n);
    kani::cover!(true);
}
// @harness name=c03_tuple_09 props=C03,C01,C07 kind=complete tier=thorough
#[kani::proof]
fn c03_tuple_09() {
    let v: [u8; 9] = kani::any();
    kani::assume(v[0] < 24 && v[1] < 24 && v[2] < 24 && v[3] < 24 && v[4] < 24 && v[5] < 24 && v[6] < 24 && v[7] < 24 && v[8] < 24);
    let t: (u8, u8, u8, u8, u8, u8, u8, u8, u8, ) = (v[0], v[1], v[2], v[3], v[4], v[5], v[6], v[7], v[8], );
    let (buf, n) = enc(&t);
    assert!(n == 10 && buf[0] == 0x89);
    assert!(buf[1] == v[0] && buf[2] == v[1] && buf[3] == v[2] && buf[4] == v[3] && buf[5] == v[4] && buf[6] == v[5] && buf[7] == v[6] && buf[8] == v[7] && buf[9] == v[8]);
    assert!(t.cbor_len(&mut ()) == n);
    kani::cover!(true);
}
// @harness name=c03_tuple_10 props=C03,C01,C07 kind=complete tier=thorough
#[kani::proof]
fn c03_tuple_10() {
    let v: [u8; 10] = kani::any();
    kani::assume(v[0] < 24 && v[1] < 24 && v[2] < 24 && v[3] < 24 && v[4] < 24 && v[5] < 24 && v[6] < 24 && v[7] < 24 && v[8] < 24 && v[9] < 24);
    let t: (u8, u8, u8, u8, u8, u8, u8, u8, u8, u8, ) = (v[0], v[1], v[2], v[3], v[4], v[5], v[6], v[7], v[8], v[9], );
    let (buf, n) = enc(&t);
    assert!(n == 11 && buf[0] == 0x8a);
    assert!(buf[1] == v[0] && buf[2] == v[1] && buf[3] == v[2] && buf[4] == v[3] && buf[5] == v[4] && buf[6] == v[5] && buf[7] == v[6] && buf[8] == v[7] && buf[9] == v[8] && buf[10] == v[9]);
    assert!(t.cbor_len(&mut ()) == n);
    kani::cover!(true);
}
// @harness name=c03_tuple_11 props=C03,C01,C07 kind=complete tier=thorough
#[kani::proof]
fn c03_tuple_11() {
    let v: [u8; 11] = kani::any();
    kani::assume(v[0] < 24 && v[1] < 24 && v[2] < 24 && v[3] < 24 && v[4] < 24 && v[5] < 24 && v[6] < 24 && v[7] < 24 && v[8] < 24 && v[9] < 24 && v[10] < 24);
    let t: (u8, u8, u8, u8, u8, u8, u8, u8, u8, u8, u8, ) = (v[0], v[1], v[2], v[3], v[4], v[5], v[6], v[7], v[8], v[9], v[10], );
    let (buf, n) = enc(&t);
    assert!(n == 12 && buf[0] == 0x8b);
    assert!(buf[1] == v[0] && buf[2] == v[1] && buf[3] == v[2] && buf[4] == v[3] && buf[5] == v[4] && buf[6] == v[5] && buf[7] == v[6] && buf[8] == v[7] && buf[9] == v[8] && buf[10] == v[9] && buf[11] == v[10]);
    assert!(t.cbor_len(&mut ()) == n);
    kani::cover!(true);
}
// @harness name=c03_tuple_12 props=C03,C01,C07 kind=complete tier=thorough
#[kani::proof]
fn c03_tuple_12() {
    let v: [u8; 12] = kani::any();
    kani::assume(v[0] < 24 && v[1] < 24 && v[2] < 24 && v[3] < 24 && v[4] < 24 && v[5] < 24 && v[6] < 24 && v[7] < 24 && v[8] < 24 && v[9] < 24 && v[10] < 24 && v[11] < 24);
    let t: (u8, u8, u8, u8, u8, u8, u8, u8, u8, u8, u8, u8, ) = (v[0], v[1], v[2], v[3], v[4], v[5], v[6], v[7], v[8], v[9], v[10], v[11], );
    let (buf, n) = enc(&t);
    assert!(n == 13 && buf[0] == 0x8c);
    assert!(buf[1] == v[0] && buf[2] == v[1] && buf[3] == v[2] && buf[4] == v[3] && buf[5] == v[4] && buf[6] == v[5] && buf[7] == v[6] && buf[8] == v[7] && buf[9] == v[8] && buf[10] == v[9] && buf[11] == v[10] && buf[12] == v[11]);
    assert!(t.cbor_len(&mut ()) == n);
    kani::cover!(true);
}
// @harness name=c03_tuple_13 props=C03,C01,C07 kind=complete tier=thorough
#[kani::proof]
fn c03_tuple_13() {
    let v: [u8; 13] = kani::any();
    kani::assume(v[0] < 24 && v[1] < 24 && v[2] < 24 && v[3] < 24 && v[4] < 24 && v[5] < 24 && v[6] < 24 && v[7] < 24 && v[8] < 24 && v[9] < 24 && v[10] < 24 && v[11] < 24 && v[12] < 24);
    let t: (u8, u8, u8, u8, u8, u8, u8, u8, u8, u8, u8, u8, u8, ) = (v[0], v[1], v[2], v[3], v[4], v[5], v[6], v[7], v[8], v[9], v[10], v[11], v[12], );
    let (buf, n) = enc(&t);
    assert!(n == 14 && buf[0] == 0x8d);
    assert!(buf[1] == v[0] && buf[2] == v[1] && buf[3] == v[2] && buf[4] == v[3] && buf[5] == v[4] && buf[6] == v[5] && buf[7] == v[6] && buf[8] == v[7] && buf[9] == v[8] && buf[10] == v[9] && buf[11] == v[10] && buf[12] == v[11] && buf[13] == v[12]);
    assert!(t.cbor_len(&mut ()) == n);
    kani::cover!(true);
}
// @harness name=c03_tuple_14 props=C03,C01,C07 kind=complete tier=thorough
#[kani::proof]
fn c03_tuple_14() {
    let v: [u8; 14] = kani::any();
    kani::assume(v[0] < 24 && v[1] < 24 && v[2] < 24 && v[3] < 24 && v[4] < 24 && v[5] < 24 && v[6] < 24 && v[7] < 24 && v[8] < 24 && v[9] < 24 && v[10] < 24 && v[11] < 24 && v[12] < 24 && v[13] < 24);
    let t: (u8, u8, u8, u8, u8, u8, u8, u8, u8, u8, u8, u8, u8, u8, ) = (v[0], v[1], v[2], v[3], v[4], v[5], v[6], v[7], v[8], v[9], v[10], v[11], v[12], v[13], );
    let (buf, n) = enc(&t);
    assert!(n == 15 && buf[0] == 0x8e);
    assert!(buf[1] == v[0] && buf[2] == v[1] && buf[3] == v[2] && buf[4] == v[3] && buf[5] == v[4] && buf[6] == v[5] && buf[7] == v[6] && buf[8] == v[7] && buf[9] == v[8] && buf[10] == v[9] && buf[11] == v[10] && buf[12] == v[11] && buf[13] == v[12] && buf[14] == v[13]);
    assert!(t.cbor_len(&mut ()) == n);
    kani::cover!(true);
}
// @harness name=c03_tuple_15 props=C03,C01,C07 kind=complete tier=thorough
#[kani::proof]
fn c03_tuple_15() {
    let v: [u8; 15] = kani::any();
    kani::assume(v[0] < 24 && v[1] < 24 && v[2] < 24 && v[3] < 24 && v[4] < 24 && v[5] < 24 && v[6] < 24 && v[7] < 24 && v[8] < 24 && v[9] < 24 && v[10] < 24 && v[11] < 24 && v[12] < 24 && v[13] < 24 && v[14] < 24);
    let t: (u8, u8, u8, u8, u8, u8, u8, u8, u8, u8, u8, u8, u8, u8, u8, ) = (v[0], v[1], v[2], v[3], v[4], v[5], v[6], v[7], v[8], v[9], v[10], v[11], v[12], v[13], v[14], );
    let (buf, n) = enc(&t);
    assert!(n == 16 && buf[0] == 0x8f);
    assert!(buf[1] == v[0] && buf[2] == v[1] && buf[3] == v[2] && buf[4] == v[3] && buf[5] == v[4] && buf[6] == v[5] && buf[7] == v[6] && buf[8] == v[7] && buf[9] == v[8] && buf[10] == v[9] && buf[11] == v[10] && buf[12] == v[11] && buf[13] == v[12] && buf[14] == v[13] && buf[15] == v[14]);
    assert!(t.cbor_len(&mut ()) == n);
    kani::cover!(true);
}
// @harness name=c03_tuple_16 props=C03,C01,C07 kind=complete tier=thorough
#[kani::proof]
fn c03_tuple_16() {
    let v: [u8; 16] = kani::any();
    kani::assume(v[0] < 24 && v[1] < 24 && v[2] < 24 && v[3] < 24 && v[4] < 24 && v[5] < 24 && v[6] < 24 && v[7] < 24 && v[8] < 24 && v[9] < 24 && v[10] < 24 && v[11] < 24 && v[12] < 24 && v[13] < 24 && v[14] < 24 && v[15] < 24);
    let t: (u8, u8, u8, u8, u8, u8, u8, u8, u8, u8, u8, u8, u8, u8, u8, u8, ) = (v[0], v[1], v[2], v[3], v[4], v[5], v[6], v[7], v[8], v[9], v[10], v[11], v[12], v[13], v[14], v[15], );
    let (buf, n) = enc(&t);
    assert!(n == 17 && buf[0] == 0x90);
    assert!(buf[1] == v[0] && buf[2] == v[1] && buf[3] == v[2] && buf[4] == v[3] && buf[5] == v[4] && buf[6] == v[5] && buf[7] == v[6] && buf[8] == v[7] && buf[9] == v[8] && buf[10] == v[9] && buf[11] == v[10] && buf[12] == v[11] && buf[13] == v[12] && buf[14] == v[13] && buf[15] == v[14] && buf[16] == v[15]);
    assert!(t.cbor_len(&mut ()) == n);
    kani::cover!(true);
}
// @harness name=c01_tuple_dec_04 props=C01 kind=complete
#[kani::proof]
fn c01_tuple_dec_04() {
    let v: [u8; 4] = kani::any();
    kani::assume(v[0] < 24 && v[1] < 24 && v[2] < 24 && v[3] < 24);
    let buf = [0x84, v[0], v[1], v[2], v[3], kani::any::<u8>()];
    let mut d = Decoder::new(&buf);
    let r: Result<(u8, u8, u8, u8, ), _> = Decode::decode(&mut d, &mut ());
    match r { Ok(t) => { assert!(t.0 == v[0] && t.1 == v[1] && t.2 == v[2] && t.3 == v[3]); assert!(d.position() == 5) } Err(_) => assert!(false) }
    kani::cover!(true);
}
// @harness name=c01_tuple_dec_08 props=C01 kind=complete tier=thorough
#[kani::proof]
fn c01_tuple_dec_08() {
    let v: [u8; 8] = kani::any();
    kani::assume(v[0] < 24 && v[1] < 24 && v[2] < 24 && v[3] < 24 && v[4] < 24 && v[5] < 24 && v[6] < 24 && v[7] < 24);
    let buf = [0x88, v[0], v[1], v[2], v[3], v[4], v[5], v[6], v[7], kani::any::<u8>()];
    let mut d = Decoder::new(&buf);
    let r: Result<(u8, u8, u8, u8, u8, u8, u8, u8, ), _> = Decode::decode(&mut d, &mut ());
    match r { Ok(t) => { assert!(t.0 == v[0] && t.1 == v[1] && t.2 == v[2] && t.3 == v[3] && t.4 == v[4] && t.5 == v[5] && t.6 == v[6] && t.7 == v[7]); assert!(d.position() == 9) } Err(_) => assert!(false) }
    kani::cover!(true);
}
// @harness name=c01_tuple_dec_12 props=C01 kind=complete tier=thorough
#[kani::proof]
fn c01_tuple_dec_12() {
    let v: [u8; 12] = kani::any();
    kani::assume(v[0] < 24 && v[1] < 24 && v[2] < 24 && v[3] < 24 && v[4] < 24 && v[5] < 24 && v[6] < 24 && v[7] < 24 && v[8] < 24 && v[9] < 24 && v[10] < 24 && v[11] < 24);
    let buf = [0x8c, v[0], v[1], v[2], v[3], v[4], v[5], v[6], v[7], v[8], v[9], v[10], v[11], kani::any::<u8>()];
    let mut d = Decoder::new(&buf);
    let r: Result<(u8, u8, u8, u8, u8, u8, u8, u8, u8, u8, u8, u8, ), _> = Decode::decode(&mut d, &mut ());
    match r { Ok(t) => { assert!(t.0 == v[0] && t.1 == v[1] && t.2 == v[2] && t.3 == v[3] && t.4 == v[4] && t.5 == v[5] && t.6 == v[6] && t.7 == v[7] && t.8 == v[8] && t.9 == v[9] && t.10 == v[10] && t.11 == v[11]); assert!(d.position() == 13) } Err(_) => assert!(false) }
    kani::cover!(true);
}
// @harness name=c01_tuple_dec_16 props=C01 kind=complete tier=thorough
#[kani::proof]
fn c01_tuple_dec_16() {
    let v: [u8; 16] = kani::any();
    kani::assume(v[0] < 24 && v[1] < 24 && v[2] < 24 && v[3] < 24 && v[4] < 24 && v[5] < 24 && v[6] < 24 && v[7] < 24 && v[8] < 24 && v[9] < 24 && v[10] < 24 && v[11] < 24 && v[12] < 24 && v[13] < 24 && v[14] < 24 && v[15] < 24);
    let buf = [0x90, v[0], v[1], v[2], v[3], v[4], v[5], v[6], v[7], v[8], v[9], v[10], v[11], v[12], v[13], v[14], v[15], kani::any::<u8>()];
    let mut d = Decoder::new(&buf);
    let r: Result<(u8, u8, u8, u8, u8, u8, u8, u8, u8, u8, u8, u8, u8, u8, u8, u8, ), _> = Decode::decode(&mut d, &mut ());
    match r { Ok(t) => { assert!(t.0 == v[0] && t.1 == v[1] && t.2 == v[2] && t.3 == v[3] && t.4 == v[4] && t.5 == v[5] && t.6 == v[6] && t.7 == v[7] && t.8 == v[8] && t.9 == v[9] && t.10 == v[10] && t.11 == v[11] && t.12 == v[12] && t.13 == v[13] && t.14 == v[14] && t.15 == v[15]); assert!(d.position() == 17) } Err(_) => assert!(false) }
    kani::cover!(true);
}

// Kani mirror of the Verus contract of `type_len` (counterexample provider): every length / count / tag head written
// through the public API is the preferred head of its argument, for all 2^64 arguments.
// @harness name=c03_heads_pref props=C03,C01 kind=complete
#[kani::proof]
fn c03_heads_pref() {
    let n: u64 = kani::any();
    let which: u8 = kani::any();
    let init: [u8; 12] = kani::any();
    let mut e = Encoder::new(Cursor::new(init));
    let (ok, major) = match which {
        0 => (e.array(n).is_ok(), 4u8),
        1 => (e.map(n).is_ok(), 5),
        _ => (e.tag(crate::data::Tag::new(n)).is_ok(), 6),
    };
    assert!(ok);
    let c = e.into_writer();
    let m = c.position();
    let buf = c.into_inner();
    let (want, wn) = pref_head(major, n);
    assert!(m == wn && prefix_eq(&buf[..], &want, wn), "head is not the RFC 8949 preferred (shortest) head of its argument");
    kani::cover!(m == 5);
}

// ---- encode::ArrayIter / encode::MapIter: definite form when the size hint is exact, otherwise the indefinite form of the SAME
// container kind, closed by a break (C03 "balanced container calls yield one item").  BOUNDED: two elements, one-byte items.
// An iterator with an inexact size hint without the standard adapters' machinery:
#[derive(Clone)]
struct Inexact { i: u8, n: u8, base: u8 }
impl Iterator for Inexact {
    type Item = u8;
    fn next(&mut self) -> Option<u8> { if self.i < self.n { self.i += 1; Some(self.base + self.i - 1) } else { None } }
    fn size_hint(&self) -> (usize, Option<usize>) { (0, None) }
}
#[derive(Clone)]
struct InexactPairs(Inexact);
impl Iterator for InexactPairs {
    type Item = (u8, u8);
    fn next(&mut self) -> Option<(u8, u8)> { self.0.next().map(|k| (k, k)) }
    fn size_hint(&self) -> (usize, Option<usize>) { (0, None) }
}

// @harness name=c03_iter_wrappers props=C03 kind=bounded bound="ArrayIter / MapIter over 2 one-byte items, exact (slice iterator) and inexact size hints"
#[kani::proof]
#[kani::unwind(5)]
fn c03_iter_wrappers() {
    let b: u8 = kani::any();
    kani::assume(b < 20);
    let items = [b, b + 1];
    // exact size hint -> definite array of 2
    let (buf, n) = enc(&crate::encode::ArrayIter::new(items.iter()));
    assert!(n == 3 && buf[0] == 0x82 && buf[1] == b && buf[2] == b + 1, "ArrayIter, exact hint: definite array");
    // inexact size hint -> indefinite ARRAY closed by a break
    let (buf, n) = enc(&crate::encode::ArrayIter::new(Inexact { i: 0, n: 2, base: b }));
    assert!(n == 4 && buf[0] == 0x9f && buf[1] == b && buf[2] == b + 1 && buf[3] == 0xff, "ArrayIter, inexact hint: 9f .. ff");
    // maps
    let pairs = [(b, b), (b + 1, b + 1)];
    let (buf, n) = enc(&crate::encode::MapIter::new(pairs.iter().map(|p| (p.0, p.1))));
    assert!(n == 5 && buf[0] == 0xa2 && buf[1] == b && buf[2] == b && buf[3] == b + 1 && buf[4] == b + 1, "MapIter, exact hint: definite map");
    let (buf, n) = enc(&crate::encode::MapIter::new(InexactPairs(Inexact { i: 0, n: 2, base: b })));
    assert!(n == 6 && buf[0] == 0xbf && buf[1] == b && buf[2] == b && buf[3] == b + 1 && buf[4] == b + 1 && buf[5] == 0xff, "MapIter, inexact hint: bf .. ff");
    kani::cover!(true);
}
