// Kani unit `roundtrip` (K4): for fixed-size built-in codec types, over ALL values of the type:
//   C01  decode(encode(v)) == v and the decoder stops exactly after the bytes produced
//        (the bytes after the encoding are symbolic junk);
//   C07  CborLen::cbor_len(v) == number of bytes written;
//   C03  (integers / bool / char / unit types) the bytes are the RFC 8949 preferred serialisation.
// Loop-free harnesses over the full value domain: complete per instantiation (not bounded).
// Macro-generated impls (encode_basic!, encode_nonzero!, encode_atomic!, encode_tuples!, decode_*) cannot be
// reached by extraction; these harnesses are where they are verified.
use crate::{Encoder, Decoder, Encode, Decode, CborLen};
use crate::encode::write::Cursor;
use crate::kani_refspec::*;

/// encode `v` into a 24-byte cursor whose initial contents are symbolic; returns (buffer, bytes written)
fn enc<T: Encode<()>>(v: &T) -> ([u8; 24], usize) {
    let init: [u8; 24] = kani::any();
    let mut e = Encoder::new(Cursor::new(init));
    let ok = v.encode(&mut e, &mut ()).is_ok();
    assert!(ok);                                         // 24 bytes always suffice for the types below
    let c = e.into_writer();
    let n = c.position();
    (c.into_inner(), n)
}

macro_rules! rt {
    // $eq: closure-like comparison of original and decoded value
    ($name:ident, $t:ty, |$v:ident| $mk:expr, |$a:ident, $b:ident| $eq:expr) => {
        #[kani::proof]
        #[cfg_attr(feature = "alloc", kani::stub(crate::decode::Error::with_message, crate::kani_refspec_stubs::with_message))]
        #[cfg_attr(feature = "alloc", kani::stub(crate::decode::Error::message, crate::kani_refspec_stubs::message))]
        #[kani::stub(crate::decode::Decoder::skip, crate::kani_refspec_stubs::skip_leaf)]
        #[kani::unwind(6)]      // field loops of decode_fields! (<= 3 iterations), memcmp of <= 4 bytes; unwinding assertions stay on
        fn $name() {
            let $v: $t = $mk;
            let (buf, n) = enc(&$v);
            assert!($v.cbor_len(&mut ()) == n);                                 // C07
            let mut d = Decoder::new(&buf[..]);
            let r: Result<$t, _> = <$t as Decode<()>>::decode(&mut d, &mut ());
            match &r {
                Ok(w) => { let ($a, $b) = (&$v, w); assert!($eq); assert!(d.position() == n) }   // C01
                Err(_) => assert!(false)
            }
            kani::cover!(n >= 1);
        }
    }
}

macro_rules! rt_int {
    ($name:ident, $t:ty) => {
        #[kani::proof]
        fn $name() {
            let v: $t = kani::any();
            let (buf, n) = enc(&v);
            let (want, wn) = pref_int(v as i128);
            assert!(n == wn && prefix_eq(&buf[..], &want, wn));                  // C03: shortest form, exact bytes
            assert!(v.cbor_len(&mut ()) == n);                                   // C07
            let mut d = Decoder::new(&buf[..]);
            let r: Result<$t, _> = <$t as Decode<()>>::decode(&mut d, &mut ());
            match &r { Ok(w) => { assert!(*w == v); assert!(d.position() == n) } Err(_) => assert!(false) }
            kani::cover!(n == 9 || core::mem::size_of::<$t>() < 8);
        }
    }
}

// @harness name=c01_u8 props=C01,C03,C07 kind=complete
rt_int!(c01_u8, u8);
// @harness name=c01_u16 props=C01,C03,C07 kind=complete
rt_int!(c01_u16, u16);
// @harness name=c01_u32 props=C01,C03,C07 kind=complete
rt_int!(c01_u32, u32);
// @harness name=c01_u64 props=C01,C03,C07 kind=complete
rt_int!(c01_u64, u64);
// @harness name=c01_i8 props=C01,C03,C07 kind=complete
rt_int!(c01_i8, i8);
// @harness name=c01_i16 props=C01,C03,C07 kind=complete
rt_int!(c01_i16, i16);
// @harness name=c01_i32 props=C01,C03,C07 kind=complete
rt_int!(c01_i32, i32);
// @harness name=c01_i64 props=C01,C03,C07 kind=complete
rt_int!(c01_i64, i64);
// @harness name=c01_usize props=C01,C03,C07 kind=complete
rt_int!(c01_usize, usize);
// @harness name=c01_isize props=C01,C03,C07 kind=complete
rt_int!(c01_isize, isize);

// @harness name=c01_bool props=C01,C03,C07 kind=complete
rt!(c01_bool, bool, |v| kani::any(), |a, b| a == b);
// @harness name=c01_char props=C01,C03,C07 kind=complete
rt!(c01_char, char, |v| kani::any(), |a, b| a == b);
// @harness name=c01_f32 props=C01,C07,C12 kind=complete
rt!(c01_f32, f32, |v| f32::from_bits(kani::any()), |a, b| a.to_bits() == b.to_bits());
// @harness name=c01_f64 props=C01,C07,C12 kind=complete
rt!(c01_f64, f64, |v| f64::from_bits(kani::any()), |a, b| a.to_bits() == b.to_bits());
// @harness name=c01_unit props=C01,C03,C07 kind=complete
rt!(c01_unit, (), |v| (), |a, b| a == b);
// @harness name=c01_phantom props=C01,C07 kind=complete
rt!(c01_phantom, core::marker::PhantomData<u8>, |v| core::marker::PhantomData, |a, b| a == b);
// @harness name=c01_int props=C01,C03,C07 kind=complete
rt!(c01_int, crate::data::Int, |v| { let n: u64 = kani::any(); if kani::any() { crate::data::Int::from(n) } else { crate::data::Int::try_from(-1i128 - n as i128).unwrap() } }, |a, b| a == b);
// @harness name=c01_tag props=C01,C03,C07 kind=complete
rt!(c01_tag, crate::data::Tag, |v| crate::data::Tag::new(kani::any()), |a, b| a == b);
// @harness name=c01_tagged props=C01,C07 kind=complete
rt!(c01_tagged, crate::data::Tagged<7, u16>, |v| crate::data::Tagged::new(kani::any()), |a, b| a.value() == b.value());
// @harness name=c01_option_u32 props=C01,C07 kind=complete
rt!(c01_option_u32, Option<u32>, |v| kani::any(), |a, b| a == b);
// @harness name=c01_result props=C01,C07 kind=complete
rt!(c01_result, Result<u8, i16>, |v| if kani::any() { Ok(kani::any()) } else { Err(kani::any()) }, |a, b| a == b);
// @harness name=c01_wrapping props=C01,C07 kind=complete
rt!(c01_wrapping, core::num::Wrapping<i32>, |v| core::num::Wrapping(kani::any()), |a, b| a == b);
// @harness name=c01_cell props=C01,C07 kind=complete
rt!(c01_cell, core::cell::Cell<u8>, |v| core::cell::Cell::new(kani::any()), |a, b| a.get() == b.get());
// @harness name=c01_nz_u8 props=C01,C07 kind=complete
rt!(c01_nz_u8, core::num::NonZeroU8, |v| kani::any(), |a, b| a == b);
// @harness name=c01_nz_u16 props=C01,C07 kind=complete
rt!(c01_nz_u16, core::num::NonZeroU16, |v| kani::any(), |a, b| a == b);
// @harness name=c01_nz_u32 props=C01,C07 kind=complete
rt!(c01_nz_u32, core::num::NonZeroU32, |v| kani::any(), |a, b| a == b);
// @harness name=c01_nz_u64 props=C01,C07 kind=complete
rt!(c01_nz_u64, core::num::NonZeroU64, |v| kani::any(), |a, b| a == b);
// @harness name=c01_nz_i8 props=C01,C07 kind=complete
rt!(c01_nz_i8, core::num::NonZeroI8, |v| kani::any(), |a, b| a == b);
// @harness name=c01_nz_i16 props=C01,C07 kind=complete
rt!(c01_nz_i16, core::num::NonZeroI16, |v| kani::any(), |a, b| a == b);
// @harness name=c01_nz_i32 props=C01,C07 kind=complete
rt!(c01_nz_i32, core::num::NonZeroI32, |v| kani::any(), |a, b| a == b);
// @harness name=c01_nz_i64 props=C01,C07 kind=complete
rt!(c01_nz_i64, core::num::NonZeroI64, |v| kani::any(), |a, b| a == b);
// @harness name=c01_nz_usize props=C01,C07 kind=complete
rt!(c01_nz_usize, core::num::NonZeroUsize, |v| kani::any(), |a, b| a == b);
// @harness name=c01_nz_isize props=C01,C07 kind=complete
rt!(c01_nz_isize, core::num::NonZeroIsize, |v| kani::any(), |a, b| a == b);
// @harness name=c01_tuple2 props=C01,C07 kind=complete tier=thorough
rt!(c01_tuple2, (u8, i16), |v| (kani::any(), kani::any()), |a, b| a == b);
// @harness name=c01_tuple3 props=C01,C07 kind=complete tier=thorough
rt!(c01_tuple3, (bool, u16, i8), |v| (kani::any(), kani::any(), kani::any()), |a, b| a == b);
// @harness name=c01_array_u8_3 props=C01,C07 kind=complete tier=thorough
rt!(c01_array_u8_3, [u8; 3], |v| kani::any(), |a, b| a == b);
// @harness name=c01_array_u16_2 props=C01,C07 kind=complete tier=thorough
rt!(c01_array_u16_2, [u16; 2], |v| kani::any(), |a, b| a == b);
// @harness name=c01_bytearray4 props=C01,C07 kind=complete
rt!(c01_bytearray4, crate::bytes::ByteArray<4>, |v| crate::bytes::ByteArray::from(kani::any::<[u8; 4]>()), |a, b| a == b);
// @harness name=c01_range props=C01,C07 kind=complete tier=thorough note="~6 min: decode_fields! loops"
rt!(c01_range, core::ops::Range<u8>, |v| kani::any::<u8>() .. kani::any::<u8>(), |a, b| a == b);
// @harness name=c01_range_incl props=C01,C07 kind=complete tier=thorough note="~6 min: decode_fields! loops"
rt!(c01_range_incl, core::ops::RangeInclusive<u8>, |v| kani::any::<u8>() ..= kani::any::<u8>(), |a, b| a == b);
// @harness name=c01_range_from props=C01,C07 kind=complete
rt!(c01_range_from, core::ops::RangeFrom<u16>, |v| kani::any::<u16>() .., |a, b| a == b);
// @harness name=c01_range_to props=C01,C07 kind=complete
rt!(c01_range_to, core::ops::RangeTo<u16>, |v| .. kani::any::<u16>(), |a, b| a == b);
// @harness name=c01_bound props=C01,C07 kind=complete
rt!(c01_bound, core::ops::Bound<u8>, |v| { let k: u8 = kani::any(); if k == 0 { core::ops::Bound::Included(kani::any()) } else if k == 1 { core::ops::Bound::Excluded(kani::any()) } else { core::ops::Bound::Unbounded } }, |a, b| a == b);
// @harness name=c01_duration props=C01,C07 kind=complete tier=thorough note="~6 min: decode_fields! loops"
rt!(c01_duration, core::time::Duration, |v| { let n: u32 = kani::any(); kani::assume(n < 1_000_000_000); core::time::Duration::new(kani::any(), n) }, |a, b| a == b);

// ---- known finding D2 (see known_findings.json): this harness asserts the CORRECT behaviour on exactly the
// listed input class and therefore FAILS while the defect exists; every other harness / contract excludes the class.
// RFC 8949 3.3: simple values 0..=23 live in the initial byte; `f8 xx` is well-formed only for xx >= 32;
// values 24..=31 have no well-formed encoding at all.
// @harness name=kf_d2_simple_reserved props=C03,C11 kind=complete
#[kani::proof]
fn kf_d2_simple_reserved() {
    let x: u8 = kani::any();
    kani::assume(20 <= x && x <= 31);
    let init: [u8; 4] = kani::any();
    let mut e = Encoder::new(Cursor::new(init));
    let ok = e.simple(x).is_ok();
    let c = e.into_writer();
    let n = c.position();
    let buf = c.into_inner();
    if x < 24 { assert!(ok && n == 1 && buf[0] == 0xe0 | x) } else { assert!(!ok) }
}
