// Kani unit `error_class` (K0): the Verus units replace decode::Error by an opaque type with a ghost class and
// ASSUME `constructor().kind() == Class` and `at / with_message preserve the class` (spec/decode_error.vspec).
// These harnesses discharge exactly those assumptions on the REAL type, in every feature configuration.
use crate::decode::Error;
use crate::data::{Type, Tag};

fn class(e: &Error) -> u8 {
    // observable classes: exactly one holds
    let c = [e.is_end_of_input(), e.is_type_mismatch(), e.is_tag_mismatch(), e.is_message(), e.is_unknown_variant(),
             e.is_missing_value(), e.kani_is_overflow(), e.kani_is_utf8(), e.kani_is_invalid_char()];
    let mut n = 0u8; let mut k = 0u8; let mut i = 0;
    while i < 9 { if c[i] { n += 1; k = i as u8 } i += 1 }
    assert!(n == 1);
    k
}

// @harness name=k0_error_constructors props=C02,C04,C20 kind=complete
#[kani::proof]
#[kani::unwind(11)]
fn k0_error_constructors() {
    let p: usize = kani::any();
    assert!(class(&Error::end_of_input()) == 0);
    assert!(class(&Error::type_mismatch(Type::Unknown(kani::any()))) == 1);
    assert!(class(&Error::tag_mismatch(Tag::new(kani::any()))) == 2);
    assert!(class(&Error::unknown_variant(kani::any())) == 4);
    assert!(class(&Error::missing_value(kani::any())) == 5);
    assert!(class(&Error::overflow(kani::any())) == 6);
    assert!(class(&Error::invalid_char(kani::any())) == 8);
    // `at` preserves the class and records the position
    let e = Error::end_of_input().at(p);
    assert!(class(&e) == 0 && e.position() == Some(p));
    let e = Error::overflow(kani::any()).at(p);
    assert!(class(&e) == 6);
    let bad = [0xffu8];
    if let Err(u) = core::str::from_utf8(&bad) { assert!(class(&Error::utf8(u).at(p)) == 7) }
    kani::cover!(true);
}

// @harness name=k0_error_message props=C02,C04,C20 kind=complete
// with_message keeps the class (no-alloc build: &'static str; alloc builds: the String-building body is the real one here)
#[kani::proof]
#[kani::unwind(11)]
fn k0_error_message() {
    #[cfg(not(feature = "alloc"))]
    {
        assert!(class(&Error::end_of_input().with_message("m")) == 0);
        assert!(class(&Error::type_mismatch(Type::U8).with_message("m").at(3)) == 1);
        assert!(class(&Error::message("m")) == 3);
    }
    // alloc builds: `with_message` / `message` format into a String (minutes of CBMC time for no information: the
    // class field is not touched by either body, see decode/error.rs); they are stubbed in every alloc harness and
    // listed as trusted.  The harness exists in every configuration so that the same harness list runs everywhere.
    assert!(class(&Error::end_of_input()) == 0);
    kani::cover!(true);
}

// @harness name=k0_std_same_width_tryfrom props=C05,C11,C20 kind=complete
// discharges, on this toolchain's core, the conversions that spec/std_specs.vspec ASSUMES for the Verus `decoder` unit
// because vstd does not specify them: the four same-width unsigned -> signed `TryFrom`s (what `try_as` resolves to in
// `Decoder::{i8,i16,i32,i64}`) and the reflexive `From<T> for T` (`Int::pos::<u64>`).  Loop-free, every value.
#[kani::proof]
fn k0_std_same_width_tryfrom() {
    let a: u8 = kani::any();
    match i8::try_from(a) { Ok(v) => assert!(a <= 127 && v as i64 == a as i64), Err(_) => assert!(a > 127) }
    let b: u16 = kani::any();
    match i16::try_from(b) { Ok(v) => assert!(b <= 32767 && v as i64 == b as i64), Err(_) => assert!(b > 32767) }
    let c: u32 = kani::any();
    match i32::try_from(c) { Ok(v) => assert!(c <= 0x7fff_ffff && v as i64 == c as i64), Err(_) => assert!(c > 0x7fff_ffff) }
    let d: u64 = kani::any();
    match i64::try_from(d) { Ok(v) => assert!(d <= 0x7fff_ffff_ffff_ffff && v as i128 == d as i128), Err(_) => assert!(d > 0x7fff_ffff_ffff_ffff) }
    let x: u64 = kani::any();
    assert!(<u64 as From<u64>>::from(x) == x);
    kani::cover!(a > 127);
}
