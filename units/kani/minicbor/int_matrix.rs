// Kani unit `int_matrix` (K1): integer decoding is value-preserving across widths (C05).
// Loop-free, full-domain: one symbolic initial byte, up to 8 symbolic argument bytes, symbolic trailing
// bytes and a symbolic buffer length 0..=12 (so every truncation point is included).  The quantifier of
// C05 - (sign, head width, argument) - is finite and is covered completely; this is a proof of the
// contract for the monomorphic accessor, not a bounded stand-in.
use crate::decode::Decoder;
use crate::kani_refspec::*;

fn any_input() -> ([u8; 12], usize) {
    let a: [u8; 12] = kani::any();
    let n: usize = kani::any();
    kani::assume(n <= 12);
    (a, n)
}

macro_rules! int_accessor {
    ($name:ident, $acc:ident, $t:ty) => {
        #[kani::proof]
        fn $name() {
            let (a, n) = any_input();
            let buf = &a[..n];
            let mut d = Decoder::new(buf);
            let r = d.$acc();
            let p = d.position();
            assert!(p <= n);                                                   // C02: position stays in the input
            match int_item(buf) {
                IntItem::Value { v, hlen } => {
                    if (<$t>::MIN as i128) <= v && v <= (<$t>::MAX as i128) {
                        match &r {
                            Ok(x) => { assert!(*x as i128 == v, "decoded value differs from the mathematical value of the head");
                                       assert!(p == hlen, "position is not the end of the integer head") }
                            Err(_) => assert!(false, "a value representable in the requested type was rejected")
                        }
                    } else {
                        match &r {
                            Ok(_) => assert!(false, "a value NOT representable in the requested type was accepted (wrap / truncation)"),
                            Err(_) => {}
                        }
                    }
                }
                // a strict prefix of an integer item never succeeds; when some completion of it encodes a value
                // of the requested type the error class is end-of-input (C04, truncation clause)
                IntItem::Truncated => match &r {
                    Ok(_) => assert!(false, "a strict prefix of an integer item decoded successfully"),
                    Err(e) => if trunc_int_completable(buf, <$t>::MIN as i128, <$t>::MAX as i128) { assert!(e.is_end_of_input(), "truncated integer item: error class is not end-of-input") }
                },
                IntItem::NotInt => assert!(r.is_err()),
            }
            kani::cover!(r.is_ok());
            kani::cover!(r.is_err());
        }
    }
}

// @harness name=c05_u8 props=C05,C20 kind=complete
int_accessor!(c05_u8, u8, u8);
// @harness name=c05_u16 props=C05,C20 kind=complete
int_accessor!(c05_u16, u16, u16);
// @harness name=c05_u32 props=C05,C20 kind=complete
int_accessor!(c05_u32, u32, u32);
// @harness name=c05_u64 props=C05,C20 kind=complete
int_accessor!(c05_u64, u64, u64);
// @harness name=c05_i8 props=C05,C20 kind=complete
int_accessor!(c05_i8, i8, i8);
// @harness name=c05_i16 props=C05,C20 kind=complete
int_accessor!(c05_i16, i16, i16);
// @harness name=c05_i32 props=C05,C20 kind=complete
int_accessor!(c05_i32, i32, i32);
// @harness name=c05_i64 props=C05,C20 kind=complete
int_accessor!(c05_i64, i64, i64);

// ---- Int covers exactly [-2^64, 2^64-1]; conversions to and from the primitive integers are exact or fail (C05).
// In-crate module: `Int::pos` / `Int::neg` give every (sign, magnitude) pair; the mathematical value is
// m (non-negative) or -1 - m (negative).
use crate::data::{Int, MAX_INT, MIN_INT};

fn any_int() -> (Int, i128) {
    let m: u64 = kani::any();
    if kani::any() { (Int::pos(m), m as i128) } else { (Int::neg(m), -1 - m as i128) }
}

// @harness name=c05_int_to_prims props=C05 kind=complete
#[kani::proof]
fn c05_int_to_prims() {
    let (x, v) = any_int();
    assert!(i128::from(x) == v);                                           // the value of an Int
    assert!(i128::from(MAX_INT) == (1i128 << 64) - 1 && i128::from(MIN_INT) == -(1i128 << 64));
    macro_rules! to { ($t:ty) => {
        match <$t>::try_from(x) {
            Ok(y) => assert!(y as i128 == v),                              // exact
            Err(_) => assert!(v < <$t>::MIN as i128 || v > <$t>::MAX as i128)   // or it does not fit
        }
    } }
    to!(u8); to!(u16); to!(u32); to!(u64); to!(i8); to!(i16); to!(i32); to!(i64);
    match u128::try_from(x) { Ok(y) => assert!(v >= 0 && y == v as u128), Err(_) => assert!(v < 0) }
    kani::cover!(v == -(1i128 << 64));
}

// @harness name=c05_prims_to_int props=C05 kind=complete
#[kani::proof]
fn c05_prims_to_int() {
    macro_rules! from { ($t:ty) => { let a: $t = kani::any(); assert!(i128::from(Int::from(a)) == a as i128); } }
    from!(u8); from!(u16); from!(u32); from!(u64); from!(i8); from!(i16); from!(i32); from!(i64);
    let w: i128 = kani::any();
    match Int::try_from(w) {
        Ok(x) => { assert!(i128::from(x) == w); assert!(-(1i128 << 64) <= w && w < (1i128 << 64)) }
        Err(_) => assert!(w < -(1i128 << 64) || w >= (1i128 << 64))
    }
    let u: u128 = kani::any();
    match Int::try_from(u) {
        Ok(x) => { assert!(u < (1u128 << 64) && i128::from(x) == u as i128) }
        Err(_) => assert!(u >= (1u128 << 64))
    }
    kani::cover!(w == -(1i128 << 64));
}
