// Kani unit `int_matrix` (K1): integer decoding is value-preserving across widths (C05).
// Loop-free, full-domain: one symbolic initial byte, up to 8 symbolic argument bytes, symbolic trailing
// bytes and a symbolic buffer length 0..=12 (so every truncation point is included).  The quantifier of
// C05 - (sign, head width, argument) - is finite and is covered completely; this is a proof of the
// contract for the monomorphic accessor, not a bounded stand-in.
use crate::decode::Decoder;
use crate::kani_refspec::*;

fn any_input() -> ([u8; 12], usize) {
    let a: [u8; 12] = kani::any();
    let n: usize = kani::any();
    kani::assume(n <= 12);
    (a, n)
}

macro_rules! int_accessor {
    ($name:ident, $acc:ident, $t:ty) => {
        #[kani::proof]
        fn $name() {
            let (a, n) = any_input();
            let buf = &a[..n];
            let mut d = Decoder::new(buf);
            let r = d.$acc();
            let p = d.position();
            assert!(p <= n);                                                   // C02: position stays in the input
            match int_item(buf) {
                IntItem::Value { v, hlen } => {
                    if (<$t>::MIN as i128) <= v && v <= (<$t>::MAX as i128) {
                        match &r {
                            Ok(x) => { assert!(*x as i128 == v); assert!(p == hlen) }      // equal value, exact consumption
                            Err(_) => assert!(false)                                       // representable => accepted
                        }
                    } else {
                        match &r {
                            Ok(_) => assert!(false),                                       // never wraps or truncates
                            Err(_) => {}
                        }
                    }
                }
                // a strict prefix of an integer item never succeeds; when some completion of it encodes a value
                // of the requested type the error class is end-of-input (C04, truncation clause)
                IntItem::Truncated => match &r {
                    Ok(_) => assert!(false),
                    Err(e) => if trunc_int_completable(buf, <$t>::MIN as i128, <$t>::MAX as i128) { assert!(e.is_end_of_input()) }
                },
                IntItem::NotInt => assert!(r.is_err()),
            }
            kani::cover!(r.is_ok());
            kani::cover!(r.is_err());
        }
    }
}

// @harness name=c05_u8 props=C05,C20 kind=complete
int_accessor!(c05_u8, u8, u8);
// @harness name=c05_u16 props=C05,C20 kind=complete
int_accessor!(c05_u16, u16, u16);
// @harness name=c05_u32 props=C05,C20 kind=complete
int_accessor!(c05_u32, u32, u32);
// @harness name=c05_u64 props=C05,C20 kind=complete
int_accessor!(c05_u64, u64, u64);
// @harness name=c05_i8 props=C05,C20 kind=complete
int_accessor!(c05_i8, i8, i8);
// @harness name=c05_i16 props=C05,C20 kind=complete
int_accessor!(c05_i16, i16, i16);
// @harness name=c05_i32 props=C05,C20 kind=complete
int_accessor!(c05_i32, i32, i32);
// @harness name=c05_i64 props=C05,C20 kind=complete
int_accessor!(c05_i64, i64, i64);
