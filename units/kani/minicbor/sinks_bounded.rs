// Kani unit `sinks_bounded`: C13 for `Cursor<Box<[u8]>>`, the one in-crate sink the Verus unit `encoder` cannot reach (the
// installed Verus has no model of `&mut box[i..]`).  BOUNDED stand-in: capacities 0..=4, two raw writes of length <= 3.
use crate::encode::write::{Cursor, Write};

fn run(cap: usize) {
    let init: [u8; 4] = kani::any();
    let data: [u8; 6] = kani::any();
    let l1: usize = kani::any(); let l2: usize = kani::any();
    kani::assume(l1 <= 3 && l2 <= 3);
    let b: alloc::boxed::Box<[u8]> = alloc::vec::Vec::from(&init[.. cap]).into_boxed_slice();
    let mut c = Cursor::new(b);
    let r1 = c.write_all(&data[.. l1]);
    assert!(r1.is_ok() == (l1 <= cap));                                           // succeeds iff it fits
    let p1 = if l1 <= cap { l1 } else { 0 };
    assert!(c.position() == p1);                                                  // position == bytes accepted so far
    let r2 = c.write_all(&data[3 .. 3 + l2]);
    assert!(r2.is_ok() == (p1 + l2 <= cap));
    let p2 = if p1 + l2 <= cap { p1 + l2 } else { p1 };
    assert!(c.position() == p2);
    let out = c.into_inner();
    assert!(out.len() == cap);                                                    // never grows, never overruns
    let mut i = 0;
    while i < cap {
        let want = if i < p1 { data[i] } else if i < p2 { data[3 + i - p1] } else { init[i] };   // frame: everything else untouched
        assert!(out[i] == want);
        i += 1;
    }
}

// @harness name=c13_box_cursor props=C13 kind=bounded features=alloc bound="capacity 0..=4, two write_all calls of length 0..=3, all contents"
#[kani::proof]
#[kani::unwind(6)]
fn c13_box_cursor() {
    let cap: u8 = kani::any();
    match cap { 0 => run(0), 1 => run(1), 2 => run(2), 3 => run(3), _ => run(4) }
    kani::cover!(cap == 3);
}

// Kani mirrors of the Verus sink contracts for the array and slice cursors (counterexample providers; bounded like above)
fn run_array(cap_used: usize) {
    // Cursor<[u8; 4]>: `cap_used` only selects how much of the two writes fits
    let init: [u8; 4] = kani::any();
    let data: [u8; 6] = kani::any();
    let l1: usize = kani::any(); let l2: usize = kani::any();
    kani::assume(l1 <= 3 && l2 <= 3 && l1 <= cap_used);
    let mut c = Cursor::new(init);
    let r1 = c.write_all(&data[.. l1]);
    assert!(r1.is_ok() == (l1 <= 4), "write_all succeeds iff it fits");
    let p1 = if l1 <= 4 { l1 } else { 0 };
    assert!(c.position() == p1, "position != bytes accepted so far");
    let r2 = c.write_all(&data[3 .. 3 + l2]);
    assert!(r2.is_ok() == (p1 + l2 <= 4), "write_all succeeds iff it fits");
    let p2 = if p1 + l2 <= 4 { p1 + l2 } else { p1 };
    assert!(c.position() == p2, "position != bytes accepted so far (a refused write must not move the cursor)");
    let out = c.into_inner();
    let mut i = 0;
    while i < 4 {
        let want = if i < p1 { data[i] } else if i < p2 { data[3 + i - p1] } else { init[i] };
        assert!(out[i] == want, "buffer content: accepted bytes at their positions, everything else untouched");
        i += 1;
    }
}

// @harness name=c13_array_cursor props=C13 kind=bounded features=alloc bound="Cursor<[u8; 4]>, two write_all calls of length 0..=3, all contents" note="mirror of the Verus contract"
#[kani::proof]
#[kani::unwind(6)]
fn c13_array_cursor() {
    run_array(3);
    kani::cover!(true);
}
