// Kani unit `floats` (K3): C12 - floats survive bit-exactly, half precision converts per IEEE 754.
// Every harness is loop-free and ranges over the complete bit-pattern domain (2^16 / 2^32 / 2^64),
// so each is a proof for its accessor, not a sample.
use crate::{Encoder, Decoder};
use crate::encode::write::Cursor;

/// IEEE 754-2008 binary16 -> binary32, by integer manipulation of the fields (independent of `half`).
/// sign(1) exponent(5, bias 15) fraction(10)  ->  sign(1) exponent(8, bias 127) fraction(23)
fn half_to_f32_bits(h: u16) -> u32 {
    let s = ((h >> 15) as u32) << 31;
    let e = ((h >> 10) & 0x1f) as u32;
    let m = (h & 0x3ff) as u32;
    if e == 0 {
        if m == 0 { return s }                                 // +-0
        // subnormal: value = m * 2^-24; normalise: highest set bit k (0..=9) -> 2^(k-24) * 1.xxx
        let k = 31 - m.leading_zeros();                        // 0..=9
        let exp = k + 103;                                     // k - 24 + 127
        let frac = (m - (1 << k)) << (23 - k);
        s | (exp << 23) | frac
    } else if e == 31 {
        s | (0xff << 23) | (m << 13)                           // infinities and NaNs (payload kept in the top bits)
    } else {
        s | ((e + 112) << 23) | (m << 13)                      // e - 15 + 127
    }
}

fn is_nan_half(h: u16) -> bool { (h >> 10) & 0x1f == 31 && h & 0x3ff != 0 }

// @harness name=c12_f16_decode_all props=C12,C20 kind=complete features=half
#[cfg(feature = "half")]
#[kani::proof]
fn c12_f16_decode_all() {
    let h: u16 = kani::any();
    let junk: u8 = kani::any();
    let buf = [0xf9u8, (h >> 8) as u8, h as u8, junk];
    let mut d = Decoder::new(&buf);
    match d.f16() {
        Ok(x) => {
            if is_nan_half(h) { assert!(x.is_nan()) } else { assert!(x.to_bits() == half_to_f32_bits(h)) }   // exactly the value denoted
            assert!(d.position() == 3);
        }
        Err(_) => assert!(false)
    }
    // widening: the f32 and f64 accessors accept a half item and return the exact conversion
    let mut d = Decoder::new(&buf);
    match d.f32() {
        Ok(x) => { if is_nan_half(h) { assert!(x.is_nan()) } else { assert!(x.to_bits() == half_to_f32_bits(h)) } assert!(d.position() == 3) }
        Err(_) => assert!(false)
    }
    let mut d = Decoder::new(&buf);
    match d.f64() {
        Ok(x) => {
            if is_nan_half(h) { assert!(x.is_nan()) } else { assert!(x.to_bits() == (f32::from_bits(half_to_f32_bits(h)) as f64).to_bits()) }
            assert!(d.position() == 3)
        }
        Err(_) => assert!(false)
    }
    kani::cover!(h == 0x7bff);
}

// @harness name=c12_f32_bits props=C12,C03,C20 kind=complete
#[kani::proof]
fn c12_f32_bits() {
    let bits: u32 = kani::any();
    let x = f32::from_bits(bits);
    let init: [u8; 8] = kani::any();
    let mut e = Encoder::new(Cursor::new(init));
    assert!(e.f32(x).is_ok());
    let c = e.into_writer();
    assert!(c.position() == 5);
    let buf = c.into_inner();
    // C03: floats are written at the width of the Rust type, big-endian bit pattern
    assert!(buf[0] == 0xfa && buf[1] == (bits >> 24) as u8 && buf[2] == (bits >> 16) as u8 && buf[3] == (bits >> 8) as u8 && buf[4] == bits as u8);
    let mut d = Decoder::new(&buf);
    match d.f32() { Ok(y) => { assert!(y.to_bits() == bits); assert!(d.position() == 5) } Err(_) => assert!(false) }
    // widening through f64(): exact
    let mut d = Decoder::new(&buf);
    match d.f64() {
        Ok(y) => { if x.is_nan() { assert!(y.is_nan()) } else { assert!(y.to_bits() == (x as f64).to_bits()) } assert!(d.position() == 5) }
        Err(_) => assert!(false)
    }
    kani::cover!(x.is_nan());
}

// @harness name=c12_f64_bits props=C12,C03,C20 kind=complete
#[kani::proof]
fn c12_f64_bits() {
    let bits: u64 = kani::any();
    let x = f64::from_bits(bits);
    let init: [u8; 12] = kani::any();
    let mut e = Encoder::new(Cursor::new(init));
    assert!(e.f64(x).is_ok());
    let c = e.into_writer();
    assert!(c.position() == 9);
    let buf = c.into_inner();
    assert!(buf[0] == 0xfb && buf[1] == (bits >> 56) as u8 && buf[2] == (bits >> 48) as u8 && buf[3] == (bits >> 40) as u8
        && buf[4] == (bits >> 32) as u8 && buf[5] == (bits >> 24) as u8 && buf[6] == (bits >> 16) as u8 && buf[7] == (bits >> 8) as u8 && buf[8] == bits as u8);
    let mut d = Decoder::new(&buf);
    match d.f64() { Ok(y) => { assert!(y.to_bits() == bits); assert!(d.position() == 9) } Err(_) => assert!(false) }
    kani::cover!(x.is_nan());
}

// @harness name=c12_no_narrowing props=C12,C04,C20 kind=complete features=half
// a wider float is never accepted by a narrower accessor; non-float heads are never accepted as floats
#[cfg(feature = "half")]
#[kani::proof]
fn c12_no_narrowing() {
    let buf: [u8; 10] = kani::any();
    let b = buf[0];
    let mut d = Decoder::new(&buf);
    let r16 = d.f16();
    if b != 0xf9 { assert!(r16.is_err()) } else { assert!(r16.is_ok()) }
    let mut d = Decoder::new(&buf);
    let r32 = d.f32();
    if b != 0xf9 && b != 0xfa { assert!(r32.is_err()) } else { assert!(r32.is_ok()) }
    let mut d = Decoder::new(&buf);
    let r64 = d.f64();
    if b != 0xf9 && b != 0xfa && b != 0xfb { assert!(r64.is_err()) } else { assert!(r64.is_ok()) }
    kani::cover!(b == 0xfb);
}

// @harness name=c12_float_truncation props=C12,C04,C02,C20 kind=complete features=half
// every strict prefix of a float item fails with the end-of-input class
#[cfg(feature = "half")]
#[kani::proof]
fn c12_float_truncation() {
    let a: [u8; 9] = kani::any();
    let n: usize = kani::any();
    kani::assume(n <= 9);
    let buf = &a[.. n];
    let need = if n == 0 { 1 } else { match a[0] { 0xf9 => 3, 0xfa => 5, 0xfb => 9, _ => 0 } };
    let mut d = Decoder::new(buf);
    let r = d.f64();
    assert!(d.position() <= n);
    if need != 0 && n < need { match &r { Ok(_) => assert!(false), Err(e) => assert!(e.is_end_of_input()) } }
    if need != 0 && n >= need { assert!(r.is_ok()) }
    kani::cover!(r.is_ok());
}

fn f32_abs_bits(x: f32) -> u32 { x.to_bits() & 0x7fff_ffff }

// @harness name=c12_f16_encode_all props=C12 kind=complete features=half
// Encoder::f16 over ALL 2^32 f32 inputs, in property form: NaN -> NaN; otherwise the result is a nearest
// representable half (ties to even), exact for half-representable values, overflow (|x| >= 65520) -> infinity.
#[cfg(feature = "half")]
#[kani::proof]
fn c12_f16_encode_all() {
    let bits: u32 = kani::any();
    let x = f32::from_bits(bits);
    let init: [u8; 4] = kani::any();
    let mut e = Encoder::new(Cursor::new(init));
    assert!(e.f16(x).is_ok());
    let c = e.into_writer();
    assert!(c.position() == 3);
    let buf = c.into_inner();
    assert!(buf[0] == 0xf9);
    let h = ((buf[1] as u16) << 8) | buf[2] as u16;
    if x.is_nan() { assert!(is_nan_half(h)); return }
    assert!(!is_nan_half(h));
    assert!((h >> 15) as u32 == bits >> 31);                                   // sign preserved (also for zero)
    let hm = h & 0x7fff;                                                       // magnitude, ordered like the value
    let ax = f32::from_bits(f32_abs_bits(x)) as f64;                           // |x|, exact in f64
    if ax >= 65520.0 { assert!(hm == 0x7c00); return }                         // overflow -> infinity
    assert!(hm < 0x7c00);                                                      // finite
    let v = f32::from_bits(half_to_f32_bits(hm)) as f64;                       // |result|
    let dv = if ax >= v { ax - v } else { v - ax };
    // neighbours in magnitude order (hm+1 may be infinity = 65536 for the purpose of rounding: use 65536.0)
    let up = if hm + 1 == 0x7c00 { 65536.0f64 } else { f32::from_bits(half_to_f32_bits(hm + 1)) as f64 };
    let du = up - ax;
    assert!(dv <= du);
    if dv == du { assert!(hm & 1 == 0) }                                       // tie -> even
    if hm > 0 {
        let dn = f32::from_bits(half_to_f32_bits(hm - 1)) as f64;
        let dd = ax - dn;
        assert!(dv <= dd);
        if dv == dd { assert!(hm & 1 == 0) }
    }
    kani::cover!(dv == 0.0 && hm > 0);
}
