// Kani unit `tokens` (K7): C11 per-token contracts, C07 for Token, C05 datatype consistency.
// One symbolic window of 12 bytes with symbolic length covers every head (all 256 initial bytes, every
// argument width, every truncation point).  Loop-free except where noted.
use crate::{Encoder, Decoder, Encode, Decode, CborLen};
use crate::data::{Token, Type, Int};
use crate::encode::write::Cursor;
use crate::kani_refspec::*;

fn window() -> ([u8; 12], usize) {
    let a: [u8; 12] = kani::any();
    let n: usize = kani::any();
    kani::assume(n <= 12);
    (a, n)
}

/// numeric value of an integer token (C11: "integer tokens by numeric value")
fn int_value(t: &Token) -> Option<i128> {
    Some(match *t {
        Token::U8(x) => x as i128, Token::U16(x) => x as i128, Token::U32(x) => x as i128, Token::U64(x) => x as i128,
        Token::I8(x) => x as i128, Token::I16(x) => x as i128, Token::I32(x) => x as i128, Token::I64(x) => x as i128,
        Token::Int(x) => i128::from(x),
        _ => return None
    })
}

// Initial bytes are kept CONCRETE and enumerated (all 256, in groups): CBMC's symbolic execution prunes the
// arms of `match datatype()` only by constant propagation, and the string arms carry UTF-8 validation loops.
// Everything after the initial byte - argument bytes, trailing bytes, the buffer length - is symbolic.
fn window_with(b0: u8) -> ([u8; 12], usize) {
    let mut a: [u8; 12] = kani::any();
    a[0] = b0;
    let n: usize = kani::any();
    kani::assume(n <= 12);
    (a, n)
}

fn is_def_string(b0: u8) -> bool { (0x40 ..= 0x5b).contains(&b0) || (0x60 ..= 0x7b).contains(&b0) }

// every head that is not a definite-length string: the token carries the data-model value of the head and
// the decoder consumes exactly the head; strict prefixes fail with end-of-input; reserved heads fail.
#[cfg(feature = "half")]
fn check_token_head(b0: u8) {
    let (a, n) = window_with(b0);
    let buf = &a[.. n];
    let mut d = Decoder::new(buf);
    let r: Result<Token, _> = Token::decode(&mut d, &mut ());
    let p = d.position();
    assert!(p <= n);
    match head(buf) {
        Head::Truncated => match &r { Ok(_) => assert!(false), Err(e) => assert!(e.is_end_of_input()) },
        Head::Reserved { .. } => assert!(r.is_err()),
        Head::Ok { major, info, arg, hlen } => {
            let t = match &r { Ok(t) => *t, Err(_) => { assert!(major == 6 && info == 31); return } };   // 0xdf is not well-formed
            assert!(p == hlen);
            match major {
                0 => assert!(int_value(&t) == Some(arg as i128)),
                1 => assert!(int_value(&t) == Some(-1 - arg as i128)),
                2 => assert!(matches!(t, Token::BeginBytes)),
                3 => assert!(matches!(t, Token::BeginString)),
                4 => if info == 31 { assert!(matches!(t, Token::BeginArray)) } else { assert!(matches!(t, Token::Array(x) if x == arg)) },
                5 => if info == 31 { assert!(matches!(t, Token::BeginMap)) } else { assert!(matches!(t, Token::Map(x) if x == arg)) },
                6 => { assert!(info != 31); assert!(matches!(t, Token::Tag(x) if x.as_u64() == arg)) },
                _ => match info {
                    0 ..= 19 => assert!(matches!(t, Token::Simple(x) if x == info)),
                    20 => assert!(matches!(t, Token::Bool(false))),
                    21 => assert!(matches!(t, Token::Bool(true))),
                    22 => assert!(matches!(t, Token::Null)),
                    23 => assert!(matches!(t, Token::Undefined)),
                    24 => assert!(matches!(t, Token::Simple(x) if x == arg as u8)),
                    25 => assert!(matches!(t, Token::F16(_))),              // value: unit `floats`
                    26 => assert!(matches!(t, Token::F32(x) if x.to_bits() == arg as u32)),
                    27 => assert!(matches!(t, Token::F64(x) if x.to_bits() == arg)),
                    _  => assert!(matches!(t, Token::Break)),
                }
            }
        }
    }
}

macro_rules! for_bytes {
    ($f:ident; $($b:literal)+) => { $( $f($b); )+ }
}
// @harness name=c11_token_decode_heads tier=manual note="Token::decode over a fully symbolic head: tens of minutes" props=C11,C04,C02,C20 kind=complete features=half
#[cfg(feature = "half")]
#[kani::proof]
#[kani::stub(core::str::from_utf8, crate::kani_refspec_stubs::from_utf8_any)]
fn c11_token_decode_heads() {
    let b0: u8 = kani::any();      // all 256 initial bytes
    kani::assume(!is_def_string(b0));            // definite strings: c11_strings_*
    check_token_head(b0);
    kani::cover!(true);
}

// definite byte / text strings: the token borrows exactly the payload, text is UTF-8 validated
#[cfg(feature = "half")]
fn check_token_string(b0: u8) {
    let (a, n) = window_with(b0);
    let buf = &a[.. n];
    let (major, info, arg, hlen) = match head(buf) { Head::Ok { major, info, arg, hlen } => (major, info, arg, hlen), _ => return };
    if !((major == 2 || major == 3) && info != 31) { assert!(false) }
    kani::assume(arg <= 4);
    let mut d = Decoder::new(buf);
    let r: Result<Token, _> = Token::decode(&mut d, &mut ());
    let len = arg as usize;
    if hlen + len > n {
        match &r { Ok(_) => assert!(false), Err(e) => assert!(e.is_end_of_input()) }
        return
    }
    let payload = &buf[hlen .. hlen + len];
    match &r {
        Ok(Token::Bytes(b)) => { assert!(major == 2); assert!(b.as_ptr() == payload.as_ptr() && b.len() == len); assert!(d.position() == hlen + len) }
        Ok(Token::String(s)) => {
            assert!(major == 3);
            assert!(s.as_ptr() == payload.as_ptr() && s.len() == len);      // borrowed from the input
            assert!(core::str::from_utf8(payload).is_ok());
            assert!(d.position() == hlen + len)
        }
        Ok(_) => assert!(false),
        Err(e) => { assert!(major == 3 && core::str::from_utf8(payload).is_err()); assert!(e.kani_is_utf8()) }
    }
}
// @harness name=c11_strings_bytes tier=manual props=C11,C04,C02 kind=bounded features=half bound="payload <= 4 bytes, every head width"
#[cfg(feature = "half")]
#[kani::proof]
#[kani::unwind(8)]
fn c11_strings_bytes() { for_bytes!(check_token_string; 0x40 0x41 0x42 0x43 0x44 0x58 0x59 0x5a 0x5b); kani::cover!(true); }
// @harness name=c11_strings_text tier=manual props=C11,C04,C02 kind=bounded features=half bound="payload <= 4 bytes (every UTF-8 sequence form), every head width"
#[cfg(feature = "half")]
#[kani::proof]
#[kani::unwind(8)]
fn c11_strings_text() { for_bytes!(check_token_string; 0x60 0x61 0x62 0x63 0x64 0x78 0x79 0x7a 0x7b); kani::cover!(true); }

/// encode one token into a 12-byte cursor
fn enc_token(t: &Token) -> ([u8; 12], usize) {
    let init: [u8; 12] = kani::any();
    let mut e = Encoder::new(Cursor::new(init));
    assert!(t.encode(&mut e, &mut ()).is_ok());
    let c = e.into_writer();
    let n = c.position();
    (c.into_inner(), n)
}

// decode one token from any complete non-string head and encode it again: the output is the PREFERRED head of
// the same (major type, argument) - hence the identity on preferred input - and Token::cbor_len is exact.
// Excluded by the known finding D2: simple values 20..=31 (`f8 14`..`f8 1f` are ill-formed input anyway).
#[cfg(feature = "half")]
fn check_reencode(b0: u8) {
    let (a, n) = window_with(b0);
    let buf = &a[.. n];
    let (major, info, arg, hlen) = match head(buf) { Head::Ok { major, info, arg, hlen } => (major, info, arg, hlen), _ => return };
    if major == 6 && info == 31 { return }                                    // 0xdf: not well-formed
    if major == 7 && info == 24 && arg < 32 { return }                        // ill-formed two-byte simple value
    if major == 7 && info == 25 { return }                                    // half floats: c11_reencode_f16
    let mut d = Decoder::new(buf);
    let t: Token = match Token::decode(&mut d, &mut ()) { Ok(t) => t, Err(_) => { assert!(false); return } };
    let (out, m) = enc_token(&t);
    assert!(t.cbor_len(&mut ()) == m);                                        // C07
    if major == 7 || info == 31 {
        // simple values, floats, break, indefinite openers: bytes reproduced exactly
        assert!(m == hlen);
        assert!(prefix_eq(&out[..], &[a[0], a[1], a[2], a[3], a[4], a[5], a[6], a[7], a[8]], hlen));
    } else {
        let (want, wn) = pref_head(major, arg);
        assert!(m == wn && prefix_eq(&out[..], &want, wn));                   // preferred form of the same item
    }
}
// @harness name=c11_reencode_heads tier=manual note="Token::decode over a fully symbolic head: tens of minutes" props=C11,C07,C03,C20 kind=complete features=half
#[cfg(feature = "half")]
#[kani::proof]
#[kani::stub(core::str::from_utf8, crate::kani_refspec_stubs::from_utf8_any)]
fn c11_reencode_heads() {
    let b0: u8 = kani::any();      // all 256 initial bytes
    kani::assume(!is_def_string(b0));
    check_reencode(b0);
    kani::cover!(true);
}

// @harness name=c11_reencode_f16 props=C11,C07,C12 kind=complete features=half
// all 65536 half patterns: re-encoding reproduces the pattern (NaNs: stay NaN; quiet NaNs exactly)
#[cfg(feature = "half")]
#[kani::proof]
fn c11_reencode_f16() {
    let h: u16 = kani::any();
    let buf = [0xf9u8, (h >> 8) as u8, h as u8];
    let mut d = Decoder::new(&buf);
    let t: Token = match Token::decode(&mut d, &mut ()) { Ok(t) => t, Err(_) => { assert!(false); return } };
    assert!(matches!(t, Token::F16(_)));
    let (out, m) = enc_token(&t);
    assert!(m == 3 && out[0] == 0xf9);
    assert!(t.cbor_len(&mut ()) == m);                                        // C07 (D3: was 5)
    let h2 = ((out[1] as u16) << 8) | out[2] as u16;
    let nan = (h >> 10) & 0x1f == 31 && h & 0x3ff != 0;
    if !nan { assert!(h2 == h) }
    else {
        assert!((h2 >> 10) & 0x1f == 31 && h2 & 0x3ff != 0);                  // still a NaN
        if h & 0x200 != 0 { assert!(h2 == h) }                                // quiet NaNs: identical
    }
    kani::cover!(nan);
}

// @harness name=c11_token_encode_values tier=manual note="Token::decode over a fully symbolic head: tens of minutes" props=C11,C03,C07,C01 kind=complete features=half
// every integer token encodes to the preferred serialisation of its numeric value, with exact length
#[cfg(feature = "half")]
#[kani::proof]
fn c11_token_encode_values() {
    let k: u8 = kani::any();
    let t = match k {
        0 => Token::U8(kani::any()), 1 => Token::U16(kani::any()), 2 => Token::U32(kani::any()), 3 => Token::U64(kani::any()),
        4 => Token::I8(kani::any()), 5 => Token::I16(kani::any()), 6 => Token::I32(kani::any()), 7 => Token::I64(kani::any()),
        _ => { let n: u64 = kani::any(); Token::Int(if kani::any() { Int::from(n) } else { Int::try_from(-1i128 - n as i128).unwrap() }) }
    };
    let v = int_value(&t).unwrap();
    let (out, m) = enc_token(&t);
    let (want, wn) = pref_int(v);
    assert!(m == wn && prefix_eq(&out[..], &want, wn));
    assert!(t.cbor_len(&mut ()) == m);
    // and back: value-equal token
    let mut d = Decoder::new(&out[..]);
    match Token::decode(&mut d, &mut ()) { Ok(t2) => { assert!(int_value(&t2) == Some(v)); assert!(d.position() == m) } Err(_) => assert!(false) }
    kani::cover!(m == 9);
}

// @harness name=c11_token_encode_all props=C11,C03,C07 kind=complete features=half
// Token::encode for every variant without a payload slice: the bytes are the preferred head of the token's
// (major type, value) - the encode half of "tokenise and re-encode is the identity" - and cbor_len is exact.
// Token::Simple(20..=31) excluded by the known finding D2.
#[cfg(feature = "half")]
#[kani::proof]
fn c11_token_encode_all() {
    let k: u8 = kani::any();
    let x: u64 = kani::any();
    let (t, major, arg, exact): (Token, u8, u64, Option<u8>) = match k {
        0 => (Token::U8(x as u8), 0, x as u8 as u64, None), 1 => (Token::U16(x as u16), 0, x as u16 as u64, None),
        2 => (Token::U32(x as u32), 0, x as u32 as u64, None), 3 => (Token::U64(x), 0, x, None),
        4 => (Token::Array(x), 4, x, None), 5 => (Token::Map(x), 5, x, None), 6 => (Token::Tag(crate::data::Tag::new(x)), 6, x, None),
        7 => { let s = x as u8; kani::assume(s < 20 || s >= 32); (Token::Simple(s), 7, s as u64, None) }
        8 => (Token::Bool(false), 7, 20, None), 9 => (Token::Bool(true), 7, 21, None),
        10 => (Token::Null, 7, 22, None), 11 => (Token::Undefined, 7, 23, None),
        12 => (Token::Break, 7, 0, Some(0xff)), 13 => (Token::BeginBytes, 2, 0, Some(0x5f)), 14 => (Token::BeginString, 3, 0, Some(0x7f)),
        15 => (Token::BeginArray, 4, 0, Some(0x9f)), _ => (Token::BeginMap, 5, 0, Some(0xbf)),
    };
    let (out, m) = enc_token(&t);
    assert!(t.cbor_len(&mut ()) == m);
    match exact {
        Some(b) => assert!(m == 1 && out[0] == b),
        None => { let (want, wn) = pref_head(major, arg); assert!(m == wn && prefix_eq(&out[..], &want, wn)) }
    }
    kani::cover!(m == 9);
}

// @harness name=c07_token_bytes props=C07,C11 kind=bounded features=half bound="payload length <= 30 (crosses the 23/24 head boundary)"
#[cfg(feature = "half")]
#[kani::proof]
fn c07_token_bytes() {
    let data: [u8; 30] = kani::any();
    let len: usize = kani::any();
    kani::assume(len <= 30);
    let t = Token::Bytes(&data[.. len]);
    let init: [u8; 40] = kani::any();
    let mut e = Encoder::new(Cursor::new(init));
    assert!(t.encode(&mut e, &mut ()).is_ok());
    let m = e.into_writer().position();
    assert!(m == len + if len < 24 { 1 } else { 2 });
    assert!(t.cbor_len(&mut ()) == m);                                        // D3: was counted as an array of u8
    kani::cover!(len == 24);
}

// one step of the tokenizer from any position: a token advances the position, an error or the end drains
// the input - hence at most one token per input byte, and then the end.
#[cfg(feature = "half")]
fn check_step(b0: u8) {
    let (a, n) = window_with(b0);
    let buf = &a[.. n];
    let mut d = Decoder::new(buf);
    let before = d.position();
    let step = { let mut tk = d.tokens(); tk.next() };
    let after = d.position();
    assert!(after <= n);
    match step {
        Some(Ok(_)) => assert!(after > before),
        Some(Err(_)) => assert!(after == n),
        None => assert!(after == n),
    }
}
// @harness name=c11_tokenizer_step tier=manual note="Token::decode over a fully symbolic head: tens of minutes" props=C11,C02,C20 kind=complete features=half
#[cfg(feature = "half")]
#[kani::proof]
#[kani::stub(core::str::from_utf8, crate::kani_refspec_stubs::from_utf8_any)]
fn c11_tokenizer_step() {
    let b0: u8 = kani::any();      // all 256 initial bytes
    // string heads included: with the UTF-8 validator stubbed the step contract is still decided (position only)
    check_step(b0);
    kani::cover!(true);
}

// @harness name=c11_step_strings tier=manual props=C11,C02 kind=bounded features=half bound="string heads with immediate length <= 11 (buffer of 12 bytes), UTF-8 validation unwound 14 times"
#[cfg(feature = "half")]
#[kani::proof]
#[kani::unwind(14)]
fn c11_step_strings() {
    for_bytes!(check_step; 0x40 0x41 0x44 0x4b 0x57 0x58 0x59 0x5a 0x5b 0x60 0x61 0x62 0x63 0x64 0x78 0x79 0x7a 0x7b);
    kani::cover!(true);
}

// @harness name=c05_datatype_accepts props=C05,C04,C20 kind=complete tier=thorough features=half
// the reported data type of an integer item always names a type whose accessor accepts the item
#[kani::proof]
fn c05_datatype_accepts() {
    let (a, n) = window();
    let buf = &a[.. n];
    let (v, hlen) = match int_item(buf) { IntItem::Value { v, hlen } => (v, hlen), _ => return };
    let d0 = Decoder::new(buf);
    let ty = match d0.datatype() { Ok(t) => t, Err(_) => { assert!(false); return } };
    let mut d = Decoder::new(buf);
    let ok = match ty {
        Type::U8 => matches!(d.u8(), Ok(x) if x as i128 == v),
        Type::U16 => matches!(d.u16(), Ok(x) if x as i128 == v),
        Type::U32 => matches!(d.u32(), Ok(x) if x as i128 == v),
        Type::U64 => matches!(d.u64(), Ok(x) if x as i128 == v),
        Type::I8 => matches!(d.i8(), Ok(x) if x as i128 == v),
        Type::I16 => matches!(d.i16(), Ok(x) if x as i128 == v),
        Type::I32 => matches!(d.i32(), Ok(x) if x as i128 == v),
        Type::I64 => matches!(d.i64(), Ok(x) if x as i128 == v),
        Type::Int => matches!(d.int(), Ok(x) if i128::from(x) == v),
        _ => false
    };
    assert!(ok);
    assert!(d.position() == hlen);
    kani::cover!(ty == Type::Int);
}

// the tokenizer drains the decoder on ANY error, so that iteration ends: one error, then None (C11 "at most one token per
// input byte and then ends", C02 termination).  Reserved / ill-formed initial bytes, concrete.
// @harness name=c11_tokenizer_drains props=C11,C02 kind=bounded features=half tier=thorough bound="input `1c x` (reserved additional information); more inputs exceed CBMC's memory"
#[cfg(feature = "half")]
#[kani::proof]
#[kani::unwind(8)]
#[kani::stub(core::str::from_utf8, crate::kani_refspec_stubs::from_utf8_any)]
fn c11_tokenizer_drains() {
    let x: u8 = kani::any();
    macro_rules! one { ($b:expr) => {
        let buf = [$b, x];
        let mut tk = crate::decode::Tokenizer::new(&buf);
        assert!(matches!(tk.next(), Some(Err(_))), "an ill-formed head is reported as an error");
        assert!(tk.next().is_none(), "after an error the token stream ends");
    } }
    one!(0x1cu8);
    kani::cover!(true);
}
