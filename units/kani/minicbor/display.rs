// Kani unit `display` (K8): C19, totality and size bound of the diagnostic display - BOUNDED stand-in.
// The Display impl uses Peekable, a Vec stack and core::fmt; it is outside Verus' dialect, and the exact text
// of `{}` / `{:e}` is defined by core::fmt (integer / float printing) - the notation clause is not covered.
use core::fmt::Write;

struct Count(usize);
impl Write for Count {
    fn write_str(&mut self, s: &str) -> core::fmt::Result { self.0 += s.len(); Ok(()) }
}

fn render(buf: &[u8]) -> usize {
    let mut c = Count(0);
    // call the real Display::fmt directly on a Formatter over the counting sink: `write!(c, "{}", ..)` would go through
    // fmt::Arguments and its function-pointer dispatch, which CBMC cannot resolve cheaply
    let r = {
        let mut f = core::fmt::FormattingOptions::new().create_formatter(&mut c);
        core::fmt::Display::fmt(&crate::decode::Tokenizer::new(buf), &mut f)
    };
    assert!(r.is_ok());                          // "decoding problems reported inline rather than as a failure"
    c.0
}

// every container head with a declared length and nothing after it - the family in which a definite
// container keeps counting after the tokens ended.  Unwinding assertions are ON and count as violations here:
// the property demands termination after work proportional to the input.
// @harness name=c19_truncated_array1 props=C19 kind=bounded features=alloc,half bound="input `98 n`, all n; loops unwound 8 times" note="termination"
#[kani::proof]
#[kani::unwind(8)]
#[kani::stub(crate::decode::Error::with_message, crate::kani_refspec_stubs::with_message)]
#[kani::stub(crate::decode::Error::message, crate::kani_refspec_stubs::message)]
fn c19_truncated_array1() {
    let n: u8 = kani::any();
    let buf = [0x98u8, n];
    let out = render(&buf);
    assert!(out <= 40 * 2 + 40);
    kani::cover!(true);
}
