// Kani unit `containers_bounded`: growable collections (encode_sequential! / decode_sequential!, maps) - BOUNDED stand-in
// for C01 / C03 / C07: element count <= 3, u8 elements.  Header = exact count, elements in order, cbor_len exact,
// decode(encode(v)) == v with exact consumption.
use crate::{Encoder, Decoder, Encode, Decode, CborLen};
use crate::encode::write::Cursor;
use alloc::vec::Vec;

fn vec_of(n: usize, e: &[u8; 3]) -> Vec<u8> {
    let mut v = Vec::new();
    if n > 0 { v.push(e[0]) } if n > 1 { v.push(e[1]) } if n > 2 { v.push(e[2]) }
    v
}

fn check_vec(n: usize) {
    let e: [u8; 3] = kani::any();
    let v = vec_of(n, &e);
    let init: [u8; 12] = kani::any();
    let mut enc = Encoder::new(Cursor::new(init));
    assert!(v.encode(&mut enc, &mut ()).is_ok());
    let c = enc.into_writer();
    let m = c.position();
    let buf = c.into_inner();
    assert!(buf[0] == 0x80 | n as u8);                                     // exact element count, shortest head
    assert!(v.cbor_len(&mut ()) == m);
    let mut d = Decoder::new(&buf[..]);
    let r: Result<Vec<u8>, _> = Decode::decode(&mut d, &mut ());
    match r {
        Ok(w) => { assert!(w.len() == n); let mut i = 0; while i < n { assert!(w[i] == e[i]); i += 1 } assert!(d.position() == m) }
        Err(_) => assert!(false)
    }
}

// @harness name=c01_vec_u8 props=C01,C03,C07 kind=bounded features=alloc tier=thorough bound="Vec<u8> with 0..=3 elements, all element values"
#[kani::proof]
#[kani::unwind(6)]
#[kani::stub(crate::decode::Error::with_message, crate::kani_refspec_stubs::with_message)]
#[kani::stub(crate::decode::Error::message, crate::kani_refspec_stubs::message)]
fn c01_vec_u8() {
    let n: u8 = kani::any();
    match n { 0 => check_vec(0), 1 => check_vec(1), 2 => check_vec(2), _ => check_vec(3) }
    kani::cover!(n == 3);
}

// @harness name=c01_string props=C01,C03,C07 kind=bounded features=alloc tier=thorough bound="String of 0..=3 ASCII bytes"
#[kani::proof]
#[kani::unwind(8)]
#[kani::stub(crate::decode::Error::with_message, crate::kani_refspec_stubs::with_message)]
#[kani::stub(crate::decode::Error::message, crate::kani_refspec_stubs::message)]
fn c01_string() {
    let e: [u8; 3] = kani::any();
    kani::assume(e[0] < 0x80 && e[1] < 0x80 && e[2] < 0x80);
    let n: usize = kani::any();
    kani::assume(n <= 3);
    let s = alloc::string::String::from(core::str::from_utf8(&e[.. n]).unwrap());
    let init: [u8; 8] = kani::any();
    let mut enc = Encoder::new(Cursor::new(init));
    assert!(s.encode(&mut enc, &mut ()).is_ok());
    let c = enc.into_writer();
    let m = c.position();
    let buf = c.into_inner();
    assert!(m == n + 1 && buf[0] == 0x60 | n as u8);
    assert!(s.cbor_len(&mut ()) == m);
    let mut d = Decoder::new(&buf[..]);
    let r: Result<alloc::string::String, _> = Decode::decode(&mut d, &mut ());
    match r { Ok(w) => { assert!(w.len() == n && w.as_bytes() == &e[.. n]); assert!(d.position() == m) } Err(_) => assert!(false) }
    kani::cover!(n == 3);
}

// C strings are byte strings INCLUDING the terminating NUL: the head width changes when content + NUL crosses 23/24
// @harness name=c07_cstr_boundary props=C07,C03,C01 kind=bounded features=alloc bound="CStr with 22, 23 and 24 content bytes (head boundary 23/24 of content + NUL)"
#[kani::proof]
#[kani::unwind(28)]
fn c07_cstr_boundary() {
    let which: u8 = kani::any();
    let raw = [b'a'; 26];
    let n = match which { 0 => 22usize, 1 => 23, _ => 24 };           // content bytes
    let mut bytes = raw;
    bytes[n] = 0;
    let s = match core::ffi::CStr::from_bytes_with_nul(&bytes[.. n + 1]) { Ok(s) => s, Err(_) => { assert!(false); return } };
    let init: [u8; 32] = kani::any();
    let mut enc = Encoder::new(Cursor::new(init));
    assert!(s.encode(&mut enc, &mut ()).is_ok());
    let m = enc.into_writer().position();
    let total = n + 1;
    assert!(m == total + if total < 24 { 1 } else { 2 }, "C string: byte string of content + NUL with the shortest head");
    assert!(s.cbor_len(&mut ()) == m, "cbor_len != bytes written");
    kani::cover!(which == 1);
}
