// Kani unit family `serde_family` (K10): properties C17 (serde bridge round-trips the serde data model with
// the documented representation) and C18 (bridge and native traits interoperate on the shared data model).
//
// Standalone harness crate: real `#[derive(Serialize, Deserialize)]` types, the real `minicbor_serde`
// Serializer / Deserializer, the real `minicbor` Encoder / Decoder.  Nothing of /repo is modified.
//
// Recipe (notes/feas_kani_derive_and_skip.md):
//   * serializer side: symbolic values and presence, output compared byte for byte with REFERENCE bytes
//     (module `r`, written from RFC 8949 and the representation documented in the property text:
//     struct = map keyed by field name, unit variant = text, other variants = map(1){name: content},
//     None = null (f6), unit = empty array (80)); never from ser.rs / de.rs;
//   * deserializer side: input built by direct array stores, concrete structure, symbolic leaves,
//     `Decoder::skip` replaced by an executable rendering of its contract (`skip_stub`);
//   * serialize -> deserialize is never chained.
#![allow(dead_code)]

// ------------------------------------------------------------------------------------------------
// Reference encoder (RFC 8949 section 3 + preferred serialisation 4.2.1), loop-free.
// ------------------------------------------------------------------------------------------------
pub mod r {
    pub const K: usize = 32;

    /// output under construction: bytes and length
    #[derive(Clone, Copy)]
    pub struct Out { pub b: [u8; K], pub n: usize }

    impl Out {
        pub fn new(init: [u8; K]) -> Self { Out { b: init, n: 0 } }
        #[inline(always)]
        pub fn put(mut self, x: u8) -> Self { self.b[self.n] = x; self.n += 1; self }
        /// head with the shortest argument (preferred serialisation)
        pub fn head(self, major: u8, n: u64) -> Self {
            let m = major << 5;
            if n < 24 { self.put(m | n as u8) }
            else if n <= 0xff { self.put(m | 24).put(n as u8) }
            else if n <= 0xffff { self.put(m | 25).put((n >> 8) as u8).put(n as u8) }
            else if n <= 0xffff_ffff {
                self.put(m | 26).put((n >> 24) as u8).put((n >> 16) as u8).put((n >> 8) as u8).put(n as u8)
            } else {
                self.put(m | 27)
                    .put((n >> 56) as u8).put((n >> 48) as u8).put((n >> 40) as u8).put((n >> 32) as u8)
                    .put((n >> 24) as u8).put((n >> 16) as u8).put((n >> 8) as u8).put(n as u8)
            }
        }
        /// head with an argument of exactly `w` in {0 (immediate), 1, 2, 4, 8} bytes (re-framings); caller keeps n in range
        pub fn head_w(self, major: u8, n: u64, w: usize) -> Self {
            let m = major << 5;
            match w {
                0 => self.put(m | n as u8),
                1 => self.put(m | 24).put(n as u8),
                2 => self.put(m | 25).put((n >> 8) as u8).put(n as u8),
                4 => self.put(m | 26).put((n >> 24) as u8).put((n >> 16) as u8).put((n >> 8) as u8).put(n as u8),
                _ => self.put(m | 27)
                    .put((n >> 56) as u8).put((n >> 48) as u8).put((n >> 40) as u8).put((n >> 32) as u8)
                    .put((n >> 24) as u8).put((n >> 16) as u8).put((n >> 8) as u8).put(n as u8),
            }
        }
        /// integer in [-2^64, 2^64 - 1]
        pub fn int(self, v: i128) -> Self {
            if v >= 0 { self.head(0, v as u64) } else { self.head(1, (-1 - v) as u64) }
        }
        pub fn uint(self, v: u64) -> Self { self.head(0, v) }
        pub fn bool(self, v: bool) -> Self { self.put(if v { 0xf5 } else { 0xf4 }) }
        pub fn null(self) -> Self { self.put(0xf6) }
        /// char = its scalar value as an unsigned integer (shared data model of both codecs)
        pub fn char(self, c: char) -> Self { self.head(0, c as u32 as u64) }
        pub fn f32(self, v: f32) -> Self {
            let x = v.to_bits();
            self.put(0xfa).put((x >> 24) as u8).put((x >> 16) as u8).put((x >> 8) as u8).put(x as u8)
        }
        pub fn f64(self, v: f64) -> Self {
            let x = v.to_bits();
            self.put(0xfb)
                .put((x >> 56) as u8).put((x >> 48) as u8).put((x >> 40) as u8).put((x >> 32) as u8)
                .put((x >> 24) as u8).put((x >> 16) as u8).put((x >> 8) as u8).put(x as u8)
        }
        pub fn arr(self, n: u64) -> Self { self.head(4, n) }
        pub fn map(self, n: u64) -> Self { self.head(5, n) }
        pub fn arr_indef(self) -> Self { self.put(0x9f) }
        pub fn map_indef(self) -> Self { self.put(0xbf) }
        pub fn brk(self) -> Self { self.put(0xff) }
        /// unit = the empty array
        pub fn unit(self) -> Self { self.arr(0) }
        /// one-character text string (field and variant names of the family are single ASCII characters)
        pub fn t1(self, c: u8) -> Self { self.put(0x61).put(c) }
        /// two-character text string
        pub fn t2(self, c: u8, d: u8) -> Self { self.put(0x62).put(c).put(d) }
        /// u8 with one argument byte (`18 vv`): preferred for v >= 24, a wider head for v < 24
        pub fn u8w(self, v: u8) -> Self { self.put(0x18).put(v) }
        pub fn opt_u8(self, v: Option<u8>) -> Self { match v { Some(x) => self.uint(x as u64), None => self.null() } }
        pub fn opt_u16(self, v: Option<u16>) -> Self { match v { Some(x) => self.uint(x as u64), None => self.null() } }
        pub fn opt_bool(self, v: Option<bool>) -> Self { match v { Some(x) => self.bool(x), None => self.null() } }
    }

    /// a[..n] == b[..n], loop-free
    pub fn same(a: &[u8; K], b: &[u8; K], n: usize) -> bool {
        macro_rules! at { ($($i:literal)*) => { true $(&& (n <= $i || a[$i] == b[$i]))* } }
        n <= K && at!(0 1 2 3 4 5 6 7 8 9 10 11 12 13 14 15 16 17 18 19 20 21 22 23 24 25 26 27 28 29 30 31)
    }
}

// ------------------------------------------------------------------------------------------------
// `Decoder::skip` replaced by an executable rendering of its CONTRACT: advance to the end of the item at
// the cursor, or fail on a truncated item.  Public API only (input / position / set_position).  Domain:
// heads without content (integers, simple values, floats), definite-length strings, empty definite
// containers.  Anything else FAILS the harness (assert) instead of being assumed away.
// ------------------------------------------------------------------------------------------------
#[cfg(kani)]
pub fn skip_stub<'b>(d: &mut minicbor::decode::Decoder<'b>) -> Result<(), minicbor::decode::Error> where 'b: 'b {
    use minicbor::decode::Error;
    let buf = d.input();
    let p = d.position();
    if p >= buf.len() { return Err(Error::end_of_input()) }
    let ib = buf[p];
    let (major, info) = (ib >> 5, ib & 0x1f);
    let w: usize = match info { 0..=23 => 0, 24 => 1, 25 => 2, 26 => 4, 27 => 8,
        31 => { assert!(false, "skip stub: indefinite item / break outside the stub's domain"); return Err(Error::end_of_input()) }
        _ => return Err(Error::type_mismatch(minicbor::data::Type::Unknown(ib))) };
    if buf.len() - p < 1 + w { return Err(Error::end_of_input()) }
    let b = |i: usize| buf[p + 1 + i] as u64;
    let arg: u64 = match w {
        0 => info as u64,
        1 => b(0),
        2 => (b(0) << 8) | b(1),
        4 => (b(0) << 24) | (b(1) << 16) | (b(2) << 8) | b(3),
        _ => (b(0) << 56) | (b(1) << 48) | (b(2) << 40) | (b(3) << 32) | (b(4) << 24) | (b(5) << 16) | (b(6) << 8) | b(7),
    };
    let hlen = 1 + w;
    match major {
        0 | 1 | 7 => { d.set_position(p + hlen); Ok(()) }
        2 | 3 => {
            let avail = (buf.len() - p - hlen) as u64;
            if arg > avail { return Err(Error::end_of_input()) }
            d.set_position(p + hlen + arg as usize); Ok(())
        }
        4 | 5 if arg == 0 => { d.set_position(p + hlen); Ok(()) }
        _ => { assert!(false, "skip stub: nested item outside the stub's domain"); Err(Error::end_of_input()) }
    }
}

// ------------------------------------------------------------------------------------------------
// The family: one type per Serializer / Deserializer method group.  Field and variant names are
// single ASCII characters so that reference text strings are two bytes (0x61, name).
// ------------------------------------------------------------------------------------------------
use serde::{Deserialize, Serialize};

macro_rules! family {
    ($($item:item)*) => { $(
        #[derive(Serialize, Deserialize, PartialEq, Clone, Copy, Debug)]
        #[cfg_attr(kani, derive(kani::Arbitrary))]
        $item
    )* }
}

family! {
    /// unit struct: unit = the empty array
    pub struct U;
    /// newtype struct: transparent
    pub struct N(pub u16);
    /// tuple struct: definite array
    pub struct T(pub u8, pub bool);
    /// struct: map keyed by field name, Option field always present (None = null)
    pub struct S { pub a: u8, pub b: Option<u8>, pub c: bool }
    /// struct with one field (smallest map)
    pub struct S1 { pub a: bool }
    /// externally tagged enum (serde default): unit variant = text, others = map(1){name: content}
    pub enum E { A, B(u8), C(u8, bool), D { x: u8 } }
    /// nested: struct holding an enum, an Option of a newtype and a unit
    pub struct P { pub e: E, pub n: Option<N>, pub u: () }
    /// internally tagged enum: a map whose first entry is tag -> variant name
    #[serde(tag = "t")]
    pub enum I { A, B { x: u8 } }
    /// adjacently tagged enum: map {tag: name, content: value}
    #[serde(tag = "t", content = "c")]
    pub enum J { A, B(u8) }
    /// untagged enum: the content alone
    #[serde(untagged)]
    pub enum G { A(u8), B(bool), C { x: u8 } }
    /// untagged enum with a unit variant (unit = empty array)
    #[serde(untagged)]
    pub enum H { A, B(bool) }
    /// untagged enum holding a 64-bit signed integer: exercises `deserialize_any` on every integer head width
    #[serde(untagged)]
    pub enum Hi { A(i64) }
    /// untagged enum holding a char (char = its scalar value as an unsigned integer)
    #[serde(untagged)]
    pub enum Hc { A(char) }
    /// inner part of the flattened struct
    pub struct Q { pub b: bool }
    /// struct with a flattened member: one map with the members of both
    pub struct F { pub a: u8, #[serde(flatten)] pub q: Q }
}

/// hand-written Serialize: sequence of unknown length (`serialize_seq(None)`), 0..=2 elements
#[derive(Clone, Copy)]
#[cfg_attr(kani, derive(kani::Arbitrary))]
pub struct SeqUnknown { pub n: u8, pub x: u8, pub y: bool }

impl Serialize for SeqUnknown {
    fn serialize<Z: serde::Serializer>(&self, z: Z) -> Result<Z::Ok, Z::Error> {
        use serde::ser::SerializeSeq;
        let mut q = z.serialize_seq(None)?;
        if self.n >= 1 { q.serialize_element(&self.x)? }
        if self.n >= 2 { q.serialize_element(&self.y)? }
        q.end()
    }
}

/// hand-written Serialize: sequence of known length (`serialize_seq(Some(n))`), 0..=2 elements
#[derive(Clone, Copy)]
#[cfg_attr(kani, derive(kani::Arbitrary))]
pub struct SeqKnown { pub n: u8, pub x: u8, pub y: bool }

impl Serialize for SeqKnown {
    fn serialize<Z: serde::Serializer>(&self, z: Z) -> Result<Z::Ok, Z::Error> {
        use serde::ser::SerializeSeq;
        let k = if self.n >= 2 { 2 } else { self.n as usize };
        let mut q = z.serialize_seq(Some(k))?;
        if k >= 1 { q.serialize_element(&self.x)? }
        if k >= 2 { q.serialize_element(&self.y)? }
        q.end()
    }
}

/// hand-written Serialize: map of unknown length (`serialize_map(None)`), 0..=2 entries, u8 keys
#[derive(Clone, Copy)]
#[cfg_attr(kani, derive(kani::Arbitrary))]
pub struct MapUnknown { pub n: u8, pub k: u8, pub v: bool, pub l: bool, pub w: u8 }

impl Serialize for MapUnknown {
    fn serialize<Z: serde::Serializer>(&self, z: Z) -> Result<Z::Ok, Z::Error> {
        use serde::ser::SerializeMap;
        let mut q = z.serialize_map(None)?;
        if self.n >= 1 { q.serialize_entry(&self.k, &self.v)? }
        if self.n >= 2 { q.serialize_key(&self.l)?; q.serialize_value(&self.w)? }
        q.end()
    }
}

/// hand-written Serialize: map of known length (`serialize_map(Some(n))`)
#[derive(Clone, Copy)]
#[cfg_attr(kani, derive(kani::Arbitrary))]
pub struct MapKnown { pub n: u8, pub k: u8, pub v: bool, pub l: bool, pub w: u8 }

impl Serialize for MapKnown {
    fn serialize<Z: serde::Serializer>(&self, z: Z) -> Result<Z::Ok, Z::Error> {
        use serde::ser::SerializeMap;
        let k = if self.n >= 2 { 2 } else { self.n as usize };
        let mut q = z.serialize_map(Some(k))?;
        if k >= 1 { q.serialize_entry(&self.k, &self.v)? }
        if k >= 2 { q.serialize_key(&self.l)?; q.serialize_value(&self.w)? }
        q.end()
    }
}

/// hand-written Serialize / Deserialize: byte string (`serialize_bytes` / `deserialize_bytes`)
#[derive(Clone, Copy, PartialEq, Debug)]
pub struct By<'a>(pub &'a [u8]);

impl<'a> Serialize for By<'a> {
    fn serialize<Z: serde::Serializer>(&self, z: Z) -> Result<Z::Ok, Z::Error> { z.serialize_bytes(self.0) }
}

impl<'de: 'a, 'a> Deserialize<'de> for By<'a> {
    fn deserialize<D: serde::Deserializer<'de>>(d: D) -> Result<Self, D::Error> { <&'a [u8]>::deserialize(d).map(By) }
}

// ------------------------------------------------------------------------------------------------
// Harness helpers
// ------------------------------------------------------------------------------------------------
#[cfg(kani)]
mod h {
    use super::r::{self, Out, K};
    use minicbor::encode::write::Cursor;
    use minicbor::{Decoder, Encoder, Encode, Decode};
    use serde::{Serialize, Deserialize};

    /// serialise `v` through the bridge into a K-byte cursor with the given initial contents
    pub fn ser<T: Serialize>(v: &T, init: [u8; K]) -> ([u8; K], usize) {
        let mut s = minicbor_serde::Serializer::new(Cursor::new(init));
        let ok = v.serialize(&mut s).is_ok();
        assert!(ok);                                        // K bytes always suffice for the family
        let c = s.into_encoder().into_writer();
        let n = c.position();
        (c.into_inner(), n)
    }

    /// encode `v` natively (minicbor::Encode) into a K-byte cursor with the given initial contents
    pub fn nat<T: Encode<()>>(v: &T, init: [u8; K]) -> ([u8; K], usize) {
        let mut e = Encoder::new(Cursor::new(init));
        let ok = v.encode(&mut e, &mut ()).is_ok();
        assert!(ok);
        let c = e.into_writer();
        let n = c.position();
        (c.into_inner(), n)
    }

    /// deserialise through the bridge; returns (value, position after) or None on error
    pub fn de<'a, T: Deserialize<'a>>(buf: &'a [u8]) -> Option<(T, usize)> {
        let mut d = minicbor_serde::Deserializer::new(buf);
        match T::deserialize(&mut d) { Ok(v) => Some((v, d.decoder().position())), Err(_) => None }
    }

    /// decode natively; returns (value, position after) or None on error
    pub fn nde<'a, T: Decode<'a, ()>>(buf: &'a [u8]) -> Option<(T, usize)> {
        let mut d = Decoder::new(buf);
        match T::decode(&mut d, &mut ()) { Ok(v) => Some((v, d.position())), Err(_) => None }
    }

    // ============================================================================================
    // 1. C18 (+ C17 serializer side) for primitives: bridge bytes == native bytes == reference bytes,
    //    over ALL values; the rest of the buffer (symbolic initial contents) is untouched.
    // ============================================================================================
    macro_rules! ser_prim {
        ($name:ident, $t:ty, |$v:ident, $o:ident| $refx:expr, $cov:expr) => {
            #[kani::proof]
            fn $name() {
                let init: [u8; K] = kani::any();
                let $v: $t = kani::any();
                let (a, n) = ser(&$v, init);
                let (b, m) = nat(&$v, init);
                let $o = Out::new(init);
                let w: Out = $refx;
                assert!(n == m && a == b);                                  // C18: identical bytes (whole buffer)
                assert!(n == w.n && a == w.b);                              // C17: documented representation
                kani::cover!($cov(n));
            }
        }
    }

    // @harness name=c18_ser_u8 props=C18,C17 kind=complete
    ser_prim!(c18_ser_u8, u8, |v, o| o.uint(v as u64), |n| n == 2);
    // @harness name=c18_ser_u16 props=C18,C17 kind=complete
    ser_prim!(c18_ser_u16, u16, |v, o| o.uint(v as u64), |n| n == 3);
    // @harness name=c18_ser_u32 props=C18,C17 kind=complete
    ser_prim!(c18_ser_u32, u32, |v, o| o.uint(v as u64), |n| n == 5);
    // @harness name=c18_ser_u64 props=C18,C17 kind=complete
    ser_prim!(c18_ser_u64, u64, |v, o| o.uint(v), |n| n == 9);
    // @harness name=c18_ser_i8 props=C18,C17 kind=complete
    ser_prim!(c18_ser_i8, i8, |v, o| o.int(v as i128), |n| n == 2);
    // @harness name=c18_ser_i16 props=C18,C17 kind=complete
    ser_prim!(c18_ser_i16, i16, |v, o| o.int(v as i128), |n| n == 3);
    // @harness name=c18_ser_i32 props=C18,C17 kind=complete
    ser_prim!(c18_ser_i32, i32, |v, o| o.int(v as i128), |n| n == 5);
    // @harness name=c18_ser_i64 props=C18,C17 kind=complete
    ser_prim!(c18_ser_i64, i64, |v, o| o.int(v as i128), |n| n == 9);
    // @harness name=c18_ser_bool props=C18,C17 kind=complete
    ser_prim!(c18_ser_bool, bool, |v, o| o.bool(v), |n| n == 1);
    // @harness name=c18_ser_char props=C18,C17 kind=complete
    ser_prim!(c18_ser_char, char, |v, o| o.char(v), |n| n == 5);
    // @harness name=c18_ser_f32 props=C18,C17 kind=complete
    ser_prim!(c18_ser_f32, f32, |v, o| o.f32(v), |n| n == 5);
    // @harness name=c18_ser_f64 props=C18,C17 kind=complete
    ser_prim!(c18_ser_f64, f64, |v, o| o.f64(v), |n| n == 9);
    // @harness name=c18_ser_unit props=C18,C17 kind=complete
    ser_prim!(c18_ser_unit, (), |v, o| { let _ = v; o.unit() }, |n| n == 1);
    // @harness name=c18_ser_opt_u8 props=C18,C17 kind=complete
    ser_prim!(c18_ser_opt_u8, Option<u8>, |v, o| o.opt_u8(v), |n| n == 2);
    // @harness name=c18_ser_arr2 props=C18,C17 kind=complete
    ser_prim!(c18_ser_arr2, [u8; 2], |v, o| o.arr(2).uint(v[0] as u64).uint(v[1] as u64), |n| n == 5);
    // @harness name=c18_ser_tup2 props=C18,C17 kind=complete
    ser_prim!(c18_ser_tup2, (u8, u16), |v, o| o.arr(2).uint(v.0 as u64).uint(v.1 as u64), |n| n == 6);

    // ============================================================================================
    // 2. C17 serializer side: derived (and hand-written) Serialize through the bridge, ALL values
    //    (symbolic fields, presence and variant) == reference bytes of the documented representation.
    //    The reference output is one well-formed item by construction, and the buffer beyond it is
    //    compared too (nothing else is written).
    // ============================================================================================
    use super::{U, N, T, S, S1, E, P, I, J, G, H, Q, F, SeqUnknown, SeqKnown, MapUnknown, MapKnown, By};

    fn ref_e(o: Out, e: &E) -> Out {
        match *e {
            E::A => o.t1(b'A'),
            E::B(v) => o.map(1).t1(b'B').uint(v as u64),
            E::C(x, y) => o.map(1).t1(b'C').arr(2).uint(x as u64).bool(y),
            E::D { x } => o.map(1).t1(b'D').map(1).t1(b'x').uint(x as u64),
        }
    }

    macro_rules! ser_t {
        ($name:ident, $t:ty, |$v:ident, $o:ident| $refx:expr, |$n:ident| $cov:expr) => {
            #[kani::proof]
            fn $name() {
                let init: [u8; K] = kani::any();
                let $v: $t = kani::any();
                let (a, $n) = ser(&$v, init);
                let $o = Out::new(init);
                let w: Out = $refx;
                assert!($n == w.n && a == w.b);
                kani::cover!($cov);
            }
        }
    }

    // @harness name=c17_ser_unit_struct props=C17 kind=complete
    ser_t!(c17_ser_unit_struct, U, |v, o| { let _ = v; o.unit() }, |n| n == 1);
    // @harness name=c17_ser_newtype_struct props=C17 kind=complete
    ser_t!(c17_ser_newtype_struct, N, |v, o| o.uint(v.0 as u64), |n| n == 3);
    // @harness name=c17_ser_tuple_struct props=C17 kind=complete
    ser_t!(c17_ser_tuple_struct, T, |v, o| o.arr(2).uint(v.0 as u64).bool(v.1), |n| n == 4);
    // @harness name=c17_ser_struct3 props=C17 kind=complete
    ser_t!(c17_ser_struct3, S, |v, o| o.map(3).t1(b'a').uint(v.a as u64).t1(b'b').opt_u8(v.b).t1(b'c').bool(v.c), |n| n == 12);
    // @harness name=c17_ser_struct1 props=C17 kind=complete
    ser_t!(c17_ser_struct1, S1, |v, o| o.map(1).t1(b'a').bool(v.a), |n| n == 4);
    // @harness name=c17_ser_enum_ext props=C17 kind=complete
    ser_t!(c17_ser_enum_ext, E, |v, o| ref_e(o, &v), |n| n == 8);
    // @harness name=c17_ser_nested props=C17 kind=complete tier=thorough
    ser_t!(c17_ser_nested, P, |v, o| {
        let o = ref_e(o.map(3).t1(b'e'), &v.e).t1(b'n');
        let o = match v.n { Some(N(x)) => o.uint(x as u64), None => o.null() };
        o.t1(b'u').unit()
    }, |n| n == 19);
    // @harness name=c17_ser_enum_internal props=C17 kind=complete
    ser_t!(c17_ser_enum_internal, I, |v, o| match v {
        I::A => o.map(1).t1(b't').t1(b'A'),
        I::B { x } => o.map(2).t1(b't').t1(b'B').t1(b'x').uint(x as u64),
    }, |n| n >= 8);
    // @harness name=c17_ser_enum_adjacent props=C17 kind=complete
    ser_t!(c17_ser_enum_adjacent, J, |v, o| match v {
        J::A => o.map(1).t1(b't').t1(b'A'),
        J::B(x) => o.map(2).t1(b't').t1(b'B').t1(b'c').uint(x as u64),
    }, |n| n >= 8);
    // @harness name=c17_ser_enum_untagged props=C17 kind=complete
    ser_t!(c17_ser_enum_untagged, G, |v, o| match v {
        G::A(x) => o.uint(x as u64),
        G::B(b) => o.bool(b),
        G::C { x } => o.map(1).t1(b'x').uint(x as u64),
    }, |n| n == 5);
    // @harness name=c17_ser_untagged_unit props=C17 kind=complete
    ser_t!(c17_ser_untagged_unit, H, |v, o| match v { H::A => o.unit(), H::B(b) => o.bool(b) }, |n| n == 1);

    // flattened: one map holding the members of both structs, in declaration order.  serde does not tell the
    // serializer the number of entries, so the documented "unknown length -> indefinite container" applies; a
    // definite map(2) would be an equally valid rendering of the same map and is accepted as well.
    // @harness name=c17_ser_flatten props=C17 kind=complete
    #[kani::proof]
    fn c17_ser_flatten() {
        let init: [u8; K] = kani::any();
        let v: F = kani::any();
        let (a, n) = ser(&v, init);
        let body = |o: Out| o.t1(b'a').uint(v.a as u64).t1(b'b').bool(v.q.b);
        let w1 = body(Out::new(init).map_indef()).brk();
        let w2 = body(Out::new(init).map(2));
        assert!((n == w1.n && a == w1.b) || (n == w2.n && a == w2.b));
        kani::cover!(n == 8);
    }

    // @harness name=c17_ser_seq_unknown props=C17 kind=complete note="serialize_seq(None): indefinite array closed by a break"
    ser_t!(c17_ser_seq_unknown, SeqUnknown, |v, o| {
        let o = o.arr_indef();
        let o = if v.n >= 1 { o.uint(v.x as u64) } else { o };
        let o = if v.n >= 2 { o.bool(v.y) } else { o };
        o.brk()
    }, |n| n == 5);
    // @harness name=c17_ser_seq_known props=C17 kind=complete
    ser_t!(c17_ser_seq_known, SeqKnown, |v, o| {
        let k = if v.n >= 2 { 2 } else { v.n as u64 };
        let o = o.arr(k);
        let o = if k >= 1 { o.uint(v.x as u64) } else { o };
        if k >= 2 { o.bool(v.y) } else { o }
    }, |n| n == 4);
    // @harness name=c17_ser_map_unknown props=C17 kind=complete note="serialize_map(None): indefinite map closed by a break"
    ser_t!(c17_ser_map_unknown, MapUnknown, |v, o| {
        let o = o.map_indef();
        let o = if v.n >= 1 { o.uint(v.k as u64).bool(v.v) } else { o };
        let o = if v.n >= 2 { o.bool(v.l).uint(v.w as u64) } else { o };
        o.brk()
    }, |n| n == 8);
    // @harness name=c17_ser_map_known props=C17 kind=complete
    ser_t!(c17_ser_map_known, MapKnown, |v, o| {
        let k = if v.n >= 2 { 2 } else { v.n as u64 };
        let o = o.map(k);
        let o = if k >= 1 { o.uint(v.k as u64).bool(v.v) } else { o };
        if k >= 2 { o.bool(v.l).uint(v.w as u64) } else { o }
    }, |n| n == 7);

    // ============================================================================================
    // 3. C17 deserializer side: reference-built input (direct stores, concrete structure: one harness per
    //    presence mask / variant), symbolic junk after the item -> the derived Deserialize returns the value and
    //    the decoder stops exactly at the item's end.  `Decoder::skip` (called by deserialize_option on null and
    //    by deserialize_ignored_any) is replaced by its contract.
    //
    //    Leaves.  CBMC merges the Ok / Err paths of every fallible leaf decode at the function exit; if the
    //    outcome is not a constant for the symbolic executor, the remaining-length counter of the map access
    //    becomes a phi, every later position becomes symbolic and the obligation explodes (S1 with one symbolic
    //    bool byte: > 300 s; with a concrete byte: 1 s).  Therefore leaves are fed in forms whose decoding
    //    outcome is constant-foldable:
    //      * bool: both values, each in its own branch with a literal byte (complete);
    //      * u8: all 256 values in the one-argument-byte form `18 vv` (the preferred form for v >= 24, a
    //        wider head for v < 24), plus the immediate form for the sampled values {0, 23} in *_imm harnesses.
    //    The leaf decoders themselves are covered over ALL inputs by the c18_de_* harnesses (section 4).
    // ============================================================================================

    /// the bridge returns exactly `want` and consumes exactly `o.n` bytes
    fn expect_de<'a, X: Deserialize<'a> + PartialEq>(o: &'a Out, want: &X) -> bool {
        match de::<X>(&o.b[..]) { Some((v, p)) => { assert!(v == *want); assert!(p == o.n); true } None => { assert!(false); false } }
    }

    /// re-framed input (C18 "never disagree"): the bridge returns `want` (consuming exactly the item) or an error
    fn value_or_error<'a, X: Deserialize<'a> + PartialEq>(o: &'a Out, want: &X) -> bool {
        match de::<X>(&o.b[..]) { Some((v, p)) => { assert!(v == *want); assert!(p == o.n); true } None => false }
    }

    /// run `$body` once per value of the bool `$y`, bound to a literal in each branch
    macro_rules! each_bool { ($y:expr, |$c:ident| $body:expr) => { if $y { let $c = true; $body } else { let $c = false; $body } } }
    /// run `$body` once per sampled immediate value
    macro_rules! each_imm { ($x:expr, |$c:ident| $body:expr) => { if $x == 0 { let $c = 0u8; $body } else { let $c = 23u8; $body } } }

    macro_rules! de_h {
        ($name:ident, || $body:block) => {
            #[kani::proof]
            #[kani::stub(minicbor::decode::Decoder::skip, crate::skip_stub)]
            #[kani::unwind(8)]   // visit_map / visit_seq loops (<= 5 iterations), memcmp and UTF-8 check of 1-byte names; unwinding assertions stay on
            fn $name() { let ok: bool = $body; kani::cover!(ok); }
        }
    }

    // @harness name=c17_de_unit_struct props=C17 kind=complete
    de_h!(c17_de_unit_struct, || { let o = Out::new(kani::any()).unit(); expect_de(&o, &U) });

    // @harness name=c17_de_newtype_struct props=C17 kind=complete note="a single head: its width stays symbolic, all u16 values in preferred form"
    de_h!(c17_de_newtype_struct, || {
        let v: u16 = kani::any();
        let o = Out::new(kani::any()).uint(v as u64);
        expect_de(&o, &N(v))
    });

    // @harness name=c17_de_tuple_struct props=C17 kind=bounded bound="u8 leaf in the form 18 vv (all 256 values)"
    de_h!(c17_de_tuple_struct, || {
        let (x, y): (u8, bool) = kani::any();
        each_bool!(y, |yc| { let o = Out::new(kani::any()).arr(2).u8w(x).bool(yc); expect_de(&o, &T(x, yc)) })
    });

    // @harness name=c17_de_struct1 props=C17 kind=complete
    de_h!(c17_de_struct1, || {
        let a: bool = kani::any();
        each_bool!(a, |ac| { let o = Out::new(kani::any()).map(1).t1(b'a').bool(ac); expect_de(&o, &S1 { a: ac }) })
    });

    // @harness name=c17_de_struct3_none props=C17 kind=bounded bound="presence mask b=None; u8 leaf in the form 18 vv (all 256 values)"
    de_h!(c17_de_struct3_none, || {
        let (a, c): (u8, bool) = kani::any();
        each_bool!(c, |cc| {
            let o = Out::new(kani::any()).map(3).t1(b'a').u8w(a).t1(b'b').null().t1(b'c').bool(cc);
            expect_de(&o, &S { a, b: None, c: cc })
        })
    });

    // @harness name=c17_de_struct3_some props=C17 kind=bounded bound="presence mask b=Some; u8 leaves in the form 18 vv (all 256 values)"
    de_h!(c17_de_struct3_some, || {
        let (a, b, c): (u8, u8, bool) = kani::any();
        each_bool!(c, |cc| {
            let o = Out::new(kani::any()).map(3).t1(b'a').u8w(a).t1(b'b').u8w(b).t1(b'c').bool(cc);
            expect_de(&o, &S { a, b: Some(b), c: cc })
        })
    });

    // ---- externally tagged enum, one harness per variant
    // @harness name=c17_de_enum_unit props=C17 kind=complete
    de_h!(c17_de_enum_unit, || { let o = Out::new(kani::any()).t1(b'A'); expect_de(&o, &E::A) });
    // @harness name=c17_de_enum_newtype props=C17 kind=bounded bound="u8 leaf in the form 18 vv (all 256 values)"
    de_h!(c17_de_enum_newtype, || {
        let x: u8 = kani::any();
        let o = Out::new(kani::any()).map(1).t1(b'B').u8w(x);
        expect_de(&o, &E::B(x))
    });
    // @harness name=c17_de_enum_tuple props=C17 kind=bounded bound="u8 leaf in the form 18 vv (all 256 values)"
    de_h!(c17_de_enum_tuple, || {
        let (x, y): (u8, bool) = kani::any();
        each_bool!(y, |yc| { let o = Out::new(kani::any()).map(1).t1(b'C').arr(2).u8w(x).bool(yc); expect_de(&o, &E::C(x, yc)) })
    });
    // @harness name=c17_de_enum_structv props=C17 kind=bounded bound="u8 leaf in the form 18 vv (all 256 values)"
    de_h!(c17_de_enum_structv, || {
        let x: u8 = kani::any();
        let o = Out::new(kani::any()).map(1).t1(b'D').map(1).t1(b'x').u8w(x);
        expect_de(&o, &E::D { x })
    });

    // ---- immediate-form u8 leaves (preferred form of v < 24), sampled
    // @harness name=c17_de_imm_samples props=C17 kind=bounded tier=thorough bound="u8 leaves in {0, 23} in immediate form; struct S (b=Some), tuple struct T, enum E::B"
    de_h!(c17_de_imm_samples, || {
        let (a, b): (u8, u8) = kani::any();
        kani::assume((a == 0 || a == 23) && (b == 0 || b == 23));
        let r1 = each_imm!(a, |ac| each_imm!(b, |bc| {
            let o = Out::new(kani::any()).map(3).t1(b'a').uint(ac as u64).t1(b'b').uint(bc as u64).t1(b'c').bool(true);
            expect_de(&o, &S { a: ac, b: Some(bc), c: true })
        }));
        let r2 = each_imm!(a, |ac| { let o = Out::new(kani::any()).arr(2).uint(ac as u64).bool(false); expect_de(&o, &T(ac, false)) });
        let r3 = each_imm!(b, |bc| { let o = Out::new(kani::any()).map(1).t1(b'B').uint(bc as u64); expect_de(&o, &E::B(bc)) });
        r1 && r2 && r3
    });

    // ---- unknown extra struct fields on input are ignored (deserialize_ignored_any -> skip)
    // @harness name=c17_de_extra_field_after props=C17 kind=bounded bound="one unknown field 'z' after the known one; its value is a u8 (18 vv, all values), null, a 2-char text or an empty array"
    de_h!(c17_de_extra_field_after, || {
        let a: bool = kani::any();
        let v: u8 = kani::any();
        let k: u8 = kani::any();
        kani::assume(k < 4);
        each_bool!(a, |ac| {
            let o = Out::new(kani::any()).map(2).t1(b'a').bool(ac).t1(b'z');
            match k {
                0 => { let o = o.u8w(v); expect_de(&o, &S1 { a: ac }) }
                1 => { let o = o.null(); expect_de(&o, &S1 { a: ac }) }
                2 => { let o = o.t2(b'a', b'a'); expect_de(&o, &S1 { a: ac }) }
                _ => { let o = o.arr(0); expect_de(&o, &S1 { a: ac }) }
            }
        })
    });
    // @harness name=c17_de_extra_field_before props=C17 kind=bounded bound="one unknown field 'z' (u8 value 18 vv) before the known ones, struct S with b=None"
    de_h!(c17_de_extra_field_before, || {
        let (a, v, c): (u8, u8, bool) = kani::any();
        each_bool!(c, |cc| {
            let o = Out::new(kani::any()).map(4).t1(b'z').u8w(v).t1(b'a').u8w(a).t1(b'b').null().t1(b'c').bool(cc);
            expect_de(&o, &S { a, b: None, c: cc })
        })
    });
    // @harness name=c17_de_field_order props=C17 kind=bounded bound="fields of S in the order c, a, b; u8 leaves 18 vv"
    de_h!(c17_de_field_order, || {
        let (a, b): (u8, u8) = kani::any();
        let o = Out::new(kani::any()).map(3).t1(b'c').bool(true).t1(b'a').u8w(a).t1(b'b').u8w(b);
        expect_de(&o, &S { a, b: Some(b), c: true })
    });

    // ---- re-framed input (wider heads, indefinite containers): the same value or an error, never another value
    // @harness name=c18_reframe_struct_wide props=C18,C17 kind=bounded tier=thorough bound="struct S1: map head and text head with 1/2/4/8 argument bytes"
    de_h!(c18_reframe_struct_wide, || {
        let a: bool = kani::any();
        let (wm, wt): (u8, u8) = kani::any();
        kani::assume(wm < 4 && wt < 4);
        let w = |k: u8| match k { 0 => 1usize, 1 => 2, 2 => 4, _ => 8 };
        each_bool!(a, |ac| {
            let mut any_ok = true;
            // each width combination in its own branch (concrete structure)
            macro_rules! go { ($m:literal, $t:literal) => { if w(wm) == $m && w(wt) == $t {
                let o = Out::new(kani::any()).head_w(5, 1, $m).head_w(3, 1, $t).put(b'a').bool(ac);
                any_ok = value_or_error(&o, &S1 { a: ac });
            } } }
            go!(1, 1); go!(2, 1); go!(4, 1); go!(8, 1); go!(1, 2); go!(1, 4); go!(1, 8); go!(8, 8);
            let _ = any_ok; true
        })
    });
    // @harness name=c18_reframe_struct_indef props=C18,C17 kind=bounded bound="struct S as an indefinite-length map (b = None and Some), u8 leaves 18 vv"
    de_h!(c18_reframe_struct_indef, || {
        let (a, b, c, some): (u8, u8, bool, bool) = kani::any();
        each_bool!(c, |cc| {
            let o = Out::new(kani::any()).map_indef().t1(b'a').u8w(a).t1(b'b');
            if some {
                let o = o.u8w(b).t1(b'c').bool(cc).brk();
                value_or_error(&o, &S { a, b: Some(b), c: cc }); true
            } else {
                let o = o.null().t1(b'c').bool(cc).brk();
                value_or_error(&o, &S { a, b: None, c: cc }); true
            }
        })
    });
    // @harness name=c18_reframe_tuple_struct props=C18,C17 kind=bounded bound="tuple struct T as an indefinite-length array and with array heads of 1/8 argument bytes"
    de_h!(c18_reframe_tuple_struct, || {
        let (x, y): (u8, bool) = kani::any();
        each_bool!(y, |yc| {
            let o = Out::new(kani::any()).arr_indef().u8w(x).bool(yc).brk();
            value_or_error(&o, &T(x, yc));
            let o = Out::new(kani::any()).head_w(4, 2, 1).u8w(x).bool(yc);
            value_or_error(&o, &T(x, yc));
            let o = Out::new(kani::any()).head_w(4, 2, 8).u8w(x).bool(yc);
            value_or_error(&o, &T(x, yc));
            true
        })
    });
    // @harness name=c18_reframe_enum props=C18,C17 kind=bounded bound="enum E::B as map(1) with a wide map head / wide text head, E::A with a wide text head; the indefinite-map framing is not covered (see NOTES.md)"
    de_h!(c18_reframe_enum, || {
        let x: u8 = kani::any();
        let o = Out::new(kani::any()).head_w(5, 1, 1).t1(b'B').u8w(x);
        value_or_error(&o, &E::B(x));
        let o = Out::new(kani::any()).map(1).head_w(3, 1, 2).put(b'B').u8w(x);
        value_or_error(&o, &E::B(x));
        let o = Out::new(kani::any()).head_w(3, 1, 1).put(b'A');
        value_or_error(&o, &E::A);
        true
    });

    // ---- enum representations that go through serde's buffered `Content` (deserialize_any): internally tagged,
    //      adjacently tagged, untagged.  Fully literal structure; u8 leaves 18 vv.
    //      NOT COVERED on the deserializer side: shapes whose buffered Content is a non-empty map (internally tagged
    //      struct variant I::B, untagged struct variant G::C, flattened struct F): the recursive drop glue of
    //      serde's Content is unrolled at every level by CBMC; > 17 min / 13 GB even on literal input.  Their
    //      serializer side is covered (section 2); ground truth on literal inputs was taken natively (NOTES.md).
    use super::{Hc, Hi};

    // @harness name=c17_de_internal_unit props=C17 kind=complete
    de_h!(c17_de_internal_unit, || { let o = Out::new(kani::any()).map(1).t1(b't').t1(b'A'); expect_de(&o, &I::A) });
    // @harness name=c17_de_adjacent_unit props=C17 kind=complete
    de_h!(c17_de_adjacent_unit, || { let o = Out::new(kani::any()).map(1).t1(b't').t1(b'A'); expect_de(&o, &J::A) });
    // @harness name=c17_de_adjacent_newtype props=C17 kind=bounded bound="u8 leaf in the form 18 vv (all 256 values)"
    de_h!(c17_de_adjacent_newtype, || {
        let x: u8 = kani::any();
        let o = Out::new(kani::any()).map(2).t1(b't').t1(b'B').t1(b'c').u8w(x);
        expect_de(&o, &J::B(x))
    });
    // @harness name=c17_de_untagged_u8 props=C17 kind=bounded bound="variant G::A, u8 leaf in the form 18 vv (all 256 values)"
    de_h!(c17_de_untagged_u8, || { let x: u8 = kani::any(); let o = Out::new(kani::any()).u8w(x); expect_de(&o, &G::A(x)) });
    // @harness name=c17_de_untagged_bool props=C17 kind=complete
    de_h!(c17_de_untagged_bool, || {
        let y: bool = kani::any();
        each_bool!(y, |yc| { let o = Out::new(kani::any()).bool(yc); expect_de(&o, &G::B(yc)) })
    });
    // H: the unit variant H::A is excluded here (it fails: kf_untagged_unit_variant)
    // @harness name=c17_de_untagged_h_bool props=C17 kind=bounded bound="H::B only; H::A is the defect class of kf_untagged_unit_variant"
    de_h!(c17_de_untagged_h_bool, || {
        let y: bool = kani::any();
        each_bool!(y, |yc| { let o = Out::new(kani::any()).bool(yc); expect_de(&o, &H::B(yc)) })
    });

    // i64 behind deserialize_any: literal boundary values at the 4- and 8-byte head widths (a symbolic argument behind the
    // buffered `Content` did not finish in 500 s)
    // @harness name=c17_de_untagged_i64 props=C17 kind=bounded bound="Hi::A with the literal values 2^31, 2^32, i64::MAX, -2^31, -2^31-1, -2^32-1, i64::MIN"
    de_h!(c17_de_untagged_i64, || {
        let mut ok = true;
        let o = Out::new(kani::any()).head_w(0, 1u64 << 31, 4);            ok = ok && expect_de(&o, &Hi::A(1i64 << 31));
        let o = Out::new(kani::any()).head_w(0, 1u64 << 32, 8);            ok = ok && expect_de(&o, &Hi::A(1i64 << 32));
        let o = Out::new(kani::any()).head_w(0, i64::MAX as u64, 8);       ok = ok && expect_de(&o, &Hi::A(i64::MAX));
        let o = Out::new(kani::any()).head_w(1, (1u64 << 31) - 1, 4);      ok = ok && expect_de(&o, &Hi::A(-(1i64 << 31)));
        let o = Out::new(kani::any()).head_w(1, 1u64 << 31, 4);            ok = ok && expect_de(&o, &Hi::A(-(1i64 << 31) - 1));
        let o = Out::new(kani::any()).head_w(1, 1u64 << 32, 8);            ok = ok && expect_de(&o, &Hi::A(-(1i64 << 32) - 1));
        let o = Out::new(kani::any()).head_w(1, i64::MAX as u64, 8);       ok = ok && expect_de(&o, &Hi::A(i64::MIN));
        ok
    });

    // ---- known failures (candidate defects): each asserts the CORRECT behaviour on the failing class only
    // H::A serialises to the empty array 80 (c17_ser_untagged_unit), 80 does not deserialise back to H::A
    // @harness name=kf_untagged_unit_variant props=C17 kind=complete note="DEFECT: untagged enum unit variant: to_bytes(H::A) = 80, from_slice::<H>(80) = Err"
    de_h!(kf_untagged_unit_variant, || { let o = Out::new(kani::any()).unit(); expect_de(&o, &H::A) });
    // a char serialises to its scalar value (unsigned integer); behind deserialize_any (untagged / flatten / internally tagged)
    // serde's buffered content holds an integer, which char's Deserialize rejects
    // @harness name=kf_untagged_char props=C17 kind=bounded bound="Hc::A('a'), bytes 18 61" note="DEFECT: char inside an untagged enum does not round-trip"
    de_h!(kf_untagged_char, || { let o = Out::new(kani::any()).u8w(0x61); expect_de(&o, &Hc::A('a')) });

    // ============================================================================================
    // 4. C18 decoding side for the shared primitives.
    //    (a) agreement on ALL inputs: 10 fully symbolic bytes decoded natively and through the bridge; whenever
    //        both return a value the values and the positions are equal (covers every re-framing: wider heads,
    //        other majors, truncation is impossible in 10 bytes only for the longest head);
    //    (b) cross-decoding: the reference encoding of every value v (identical to what either side produces,
    //        section 1) decodes on BOTH sides to v, consuming exactly the item (symbolic junk follows).
    // ============================================================================================
    macro_rules! de_prim {
        ($name:ident, $t:ty, |$v:ident, $o:ident| $refx:expr, |$x:ident, $y:ident| $eq:expr) => {
            #[kani::proof]
            #[kani::stub(minicbor::decode::Decoder::skip, crate::skip_stub)]
            #[kani::unwind(4)]
            fn $name() {
                // (a)
                let buf: [u8; 10] = kani::any();
                let a = de::<$t>(&buf[..]);
                let b = nde::<$t>(&buf[..]);
                if let (Some(($x, p)), Some(($y, q))) = (&a, &b) { assert!($eq); assert!(p == q); }
                // (b)
                let $v: $t = kani::any();
                let $o = Out::new(kani::any());
                let w: Out = $refx;
                let c = de::<$t>(&w.b[..]);
                let d = nde::<$t>(&w.b[..]);
                match (&c, &d) {
                    (Some(($x, p)), Some(($y, q))) => { assert!($eq); assert!(*p == w.n && *q == w.n); let $y = &$v; assert!($eq); }
                    _ => assert!(false)
                }
                kani::cover!(a.is_some() && b.is_some() && c.is_some());
            }
        }
    }

    // @harness name=c18_de_u8 props=C18,C17 kind=complete
    de_prim!(c18_de_u8, u8, |v, o| o.uint(v as u64), |x, y| x == y);
    // @harness name=c18_de_u16 props=C18,C17 kind=complete
    de_prim!(c18_de_u16, u16, |v, o| o.uint(v as u64), |x, y| x == y);
    // @harness name=c18_de_u32 props=C18,C17 kind=complete
    de_prim!(c18_de_u32, u32, |v, o| o.uint(v as u64), |x, y| x == y);
    // @harness name=c18_de_u64 props=C18,C17 kind=complete
    de_prim!(c18_de_u64, u64, |v, o| o.uint(v), |x, y| x == y);
    // @harness name=c18_de_i8 props=C18,C17 kind=complete
    de_prim!(c18_de_i8, i8, |v, o| o.int(v as i128), |x, y| x == y);
    // @harness name=c18_de_i16 props=C18,C17 kind=complete
    de_prim!(c18_de_i16, i16, |v, o| o.int(v as i128), |x, y| x == y);
    // @harness name=c18_de_i32 props=C18,C17 kind=complete
    de_prim!(c18_de_i32, i32, |v, o| o.int(v as i128), |x, y| x == y);
    // @harness name=c18_de_i64 props=C18,C17 kind=complete
    de_prim!(c18_de_i64, i64, |v, o| o.int(v as i128), |x, y| x == y);
    // @harness name=c18_de_bool props=C18,C17 kind=complete
    de_prim!(c18_de_bool, bool, |v, o| o.bool(v), |x, y| x == y);
    // @harness name=c18_de_char props=C18,C17 kind=complete
    de_prim!(c18_de_char, char, |v, o| o.char(v), |x, y| x == y);
    // @harness name=c18_de_f32 props=C18,C17 kind=complete note="values compared by bit pattern"
    de_prim!(c18_de_f32, f32, |v, o| o.f32(v), |x, y| x.to_bits() == y.to_bits());
    // @harness name=c18_de_f64 props=C18,C17 kind=complete note="values compared by bit pattern"
    de_prim!(c18_de_f64, f64, |v, o| o.f64(v), |x, y| x.to_bits() == y.to_bits());
    // @harness name=c18_de_unit props=C18,C17 kind=complete
    de_prim!(c18_de_unit, (), |v, o| { let _ = v; o.unit() }, |x, y| x == y);
    // @harness name=c18_de_opt_u8 props=C18,C17 kind=complete
    de_prim!(c18_de_opt_u8, Option<u8>, |v, o| o.opt_u8(v), |x, y| x == y);

    // fixed array and tuple: concrete structure (see section 3), u8 / u16 leaves with one / two argument bytes,
    // definite and indefinite framing, both sides
    // @harness name=c18_de_arr2 props=C18,C17 kind=bounded bound="[u8; 2]: leaves 18 vv (all values); definite, wide-head and indefinite framing"
    #[kani::proof]
    #[kani::stub(minicbor::decode::Decoder::skip, crate::skip_stub)]
    #[kani::unwind(5)]
    fn c18_de_arr2() {
        let (x, y): (u8, u8) = kani::any();
        let want = [x, y];
        let o = Out::new(kani::any()).arr(2).u8w(x).u8w(y);
        let c = de::<[u8; 2]>(&o.b[..]);
        let d = nde::<[u8; 2]>(&o.b[..]);
        assert!(c == Some((want, o.n)) && d == Some((want, o.n)));                     // cross-decoding
        let o = Out::new(kani::any()).head_w(4, 2, 2).u8w(x).u8w(y);                     // wide array head
        let c = de::<[u8; 2]>(&o.b[..]);
        let d = nde::<[u8; 2]>(&o.b[..]);
        assert!(c.is_none() || c == Some((want, o.n)));
        assert!(d.is_none() || d == Some((want, o.n)));
        let o = Out::new(kani::any()).arr_indef().u8w(x).u8w(y).brk();                   // indefinite array
        let c = de::<[u8; 2]>(&o.b[..]);
        let d = nde::<[u8; 2]>(&o.b[..]);
        assert!(c.is_none() || c == Some((want, o.n)));
        assert!(d.is_none() || d == Some((want, o.n)));
        kani::cover!(x != y);
    }
    // @harness name=c18_de_tup2 props=C18,C17 kind=bounded bound="(u8, u16): leaves 18 vv / 19 vvvv (all values); definite, wide-head and indefinite framing"
    #[kani::proof]
    #[kani::stub(minicbor::decode::Decoder::skip, crate::skip_stub)]
    #[kani::unwind(5)]
    fn c18_de_tup2() {
        let (x, y): (u8, u16) = kani::any();
        let want = (x, y);
        let o = Out::new(kani::any()).arr(2).u8w(x).head_w(0, y as u64, 2);
        let c = de::<(u8, u16)>(&o.b[..]);
        let d = nde::<(u8, u16)>(&o.b[..]);
        assert!(c == Some((want, o.n)) && d == Some((want, o.n)));
        let o = Out::new(kani::any()).head_w(4, 2, 1).u8w(x).head_w(0, y as u64, 2);
        let c = de::<(u8, u16)>(&o.b[..]);
        let d = nde::<(u8, u16)>(&o.b[..]);
        assert!(c.is_none() || c == Some((want, o.n)));
        assert!(d.is_none() || d == Some((want, o.n)));
        let o = Out::new(kani::any()).arr_indef().u8w(x).head_w(0, y as u64, 2).brk();
        let c = de::<(u8, u16)>(&o.b[..]);
        let d = nde::<(u8, u16)>(&o.b[..]);
        assert!(c.is_none() || c == Some((want, o.n)));
        assert!(d.is_none() || d == Some((want, o.n)));
        kani::cover!(y > 255);
    }

    // ---- nested: struct holding an externally tagged enum, an Option of a newtype struct and a unit
    // @harness name=c17_de_nested props=C17 kind=bounded bound="P with (e, n) in {(A, None), (B(x), Some(N(y)))}; leaves 18 vv / 19 vvvv (all values)"
    de_h!(c17_de_nested, || {
        let (x, y, k): (u8, u16, bool) = kani::any();
        if k {
            let o = Out::new(kani::any()).map(3).t1(b'e').t1(b'A').t1(b'n').null().t1(b'u').unit();
            expect_de(&o, &P { e: E::A, n: None, u: () })
        } else {
            let o = Out::new(kani::any()).map(3).t1(b'e').map(1).t1(b'B').u8w(x).t1(b'n').head_w(0, y as u64, 2).t1(b'u').unit();
            expect_de(&o, &P { e: E::B(x), n: Some(N(y)), u: () })
        }
    });

    // ---- text and byte strings (serialize_str / serialize_bytes / deserialize_str / deserialize_bytes), bounded
    // @harness name=c17_ser_bytes props=C17 kind=bounded bound="byte strings of length <= 3, symbolic content"
    #[kani::proof]
    #[kani::unwind(5)]
    fn c17_ser_bytes() {
        let init: [u8; K] = kani::any();
        let src: [u8; 3] = kani::any();
        let len: usize = kani::any();
        kani::assume(len <= 3);
        let (a, n) = ser(&By(&src[..len]), init);
        let mut w = Out::new(init).head(2, len as u64);
        if len >= 1 { w = w.put(src[0]) }
        if len >= 2 { w = w.put(src[1]) }
        if len >= 3 { w = w.put(src[2]) }
        assert!(n == w.n && r::same(&a, &w.b, K));
        kani::cover!(n == 4);
    }
    // @harness name=c17_ser_text props=C17,C18 kind=bounded tier=thorough bound="ASCII text of length <= 2, symbolic content; bridge == native == reference"
    #[kani::proof]
    #[kani::unwind(5)]
    fn c17_ser_text() {
        let init: [u8; K] = kani::any();
        let src: [u8; 2] = kani::any();
        kani::assume(src[0] < 0x80 && src[1] < 0x80);
        let len: usize = kani::any();
        kani::assume(len <= 2);
        let t: &str = match core::str::from_utf8(&src[..len]) { Ok(t) => t, Err(_) => { assert!(false); "" } };
        let (a, n) = ser(&t, init);
        let (b, m) = nat(&t, init);
        let mut w = Out::new(init).head(3, len as u64);
        if len >= 1 { w = w.put(src[0]) }
        if len >= 2 { w = w.put(src[1]) }
        assert!(n == w.n && r::same(&a, &w.b, K));
        assert!(m == n && r::same(&a, &b, K));
        kani::cover!(n == 3);
    }
    // @harness name=c17_de_bytes props=C17 kind=bounded bound="byte string of length 2, symbolic content"
    de_h!(c17_de_bytes, || {
        let (x, y): (u8, u8) = kani::any();
        let o = Out::new(kani::any()).head(2, 2).put(x).put(y);
        let want = [x, y];
        expect_de(&o, &By(&want[..]))
    });
    // @harness name=c17_de_text props=C17,C18 kind=bounded bound="the text ab; bridge and native side"
    de_h!(c17_de_text, || {
        let o = Out::new(kani::any()).t2(b'a', b'b');
        let d = nde::<&str>(&o.b[..]);
        assert!(d == Some(("ab", o.n)));
        expect_de(&o, &"ab")
    });
}
