// Kani unit family `derive_family`: the REAL `#[derive(Encode, Decode, CborLen)]` expanded on a fixed family of
// type definitions; the derived functions are checked against a schema-driven reference encoder written from the
// documented wire format (minicbor-derive/src/lib.rs, section "CBOR encoding") and RFC 8949 section 3.
//   C08  derived encode == ref_encode (byte for byte), all values and all presence combinations
//   C07  derived cbor_len == number of bytes written
//   C09  derived decode(ref_encode(v)) == v with exact consumption (one harness per presence mask; input built by direct
//        array stores, structure concrete, leaves symbolic; `Decoder::skip` replaced by its contract), re-framed inputs, errors
//   C10  reader version decodes the writer version's ref_encode
// The round trip of C09 is the composition  encode(v) == ref_encode(v)  (enc_* harness)  and  decode(ref_encode(v)) == v
// (dec_* harnesses): never chained in one harness (see notes/feas_kani_derive_and_skip.md).
#![no_std]
#![allow(dead_code, unused_imports, unused_macros)]

use minicbor::{Encode, Decode, CborLen, Encoder, Decoder};
use minicbor::encode::write::Cursor;

// =====================================================================================================================
// Reference encoder (plain Rust; every loop has a bound that is a constant of the schema)
// =====================================================================================================================

/// Output buffer written by direct array stores only.
#[derive(Clone, Copy)]
pub struct Out<const N: usize> { pub b: [u8; N], pub n: usize }

/// Capacity of a pre-encoded nested item.
pub const RAW: usize = 12;

// The schema / value model is made of flat scalar records on purpose: CBMC's constant propagation follows scalar
// struct fields and index loops, but not Rust enums with payloads or slice iterators; with those the structure of the
// reference output is no longer concrete and decode-side harnesses do not terminate (measured: 8 s vs > 200 s).

/// kinds of leaf item
pub const K_U: u8 = 0;        // unsigned integer, `val` is the value
pub const K_I: u8 = 1;        // signed integer, `val` is the value as i64 bits
pub const K_BOOL: u8 = 2;     // `val` != 0
pub const K_BYTES4: u8 = 3;   // byte string of length 4 (`with = "minicbor::bytes"` on `[u8; 4]`), `val` = the bytes big-endian
pub const K_NESTED: u8 = 4;   // an item pre-encoded by the reference encoder (nested struct / enum), passed separately
pub const NOTAG: u64 = u64::MAX;

/// One field of a struct / variant: index, tag (or NOTAG), presence (false = absent optional value), leaf.
#[derive(Clone, Copy)]
pub struct F { pub idx: u32, pub tag: u64, pub present: bool, pub kind: u8, pub val: u64 }

pub fn fu(idx: u32, v: u64) -> F { F { idx, tag: NOTAG, present: true, kind: K_U, val: v } }
pub fn fi(idx: u32, v: i64) -> F { F { idx, tag: NOTAG, present: true, kind: K_I, val: v as u64 } }
pub fn fb(idx: u32, v: bool) -> F { F { idx, tag: NOTAG, present: true, kind: K_BOOL, val: v as u64 } }
pub fn fbytes4(idx: u32, v: [u8; 4]) -> F { F { idx, tag: NOTAG, present: true, kind: K_BYTES4, val: u32::from_be_bytes(v) as u64 } }
pub fn fnested(idx: u32) -> F { F { idx, tag: NOTAG, present: true, kind: K_NESTED, val: 0 } }
pub fn absent(idx: u32) -> F { F { idx, tag: NOTAG, present: false, kind: K_U, val: 0 } }
pub fn tagged(t: u64, f: F) -> F { F { tag: t, ..f } }
/// optional fields
pub fn ou<T: Into<u64> + Copy>(idx: u32, x: &Option<T>) -> F { match x { Some(v) => fu(idx, (*v).into()), None => absent(idx) } }
pub fn oi<T: Into<i64> + Copy>(idx: u32, x: &Option<T>) -> F { match x { Some(v) => fi(idx, (*v).into()), None => absent(idx) } }
pub fn ob(idx: u32, x: &Option<bool>) -> F { match x { Some(v) => fb(idx, *v), None => absent(idx) } }

/// Framing of the encoding: what `Encode` produces is `PREF`; the others are equivalent encodings of the same
/// value that a decoder must accept (RFC 8949: indefinite-length containers, non-preferred argument widths).
#[derive(Clone, Copy)]
pub struct Fr {
    /// the struct-shaped container (array / map holding the fields) is indefinite-length
    pub indef: bool,
    /// minimal width class of every head argument: 0 preferred, 1 = 1 byte, 2 = 2 bytes, 3 = 4 bytes, 4 = 8 bytes
    pub wide: u8,
}
pub const PREF: Fr = Fr { indef: false, wide: 0 };
pub const INDEF: Fr = Fr { indef: true, wide: 0 };
pub const WIDE1: Fr = Fr { indef: false, wide: 1 };
pub const WIDE2: Fr = Fr { indef: false, wide: 2 };
pub const WIDE4: Fr = Fr { indef: false, wide: 4 };

impl<const N: usize> Out<N> {
    pub fn new() -> Self { Out { b: [0; N], n: 0 } }

    #[inline(always)]
    pub fn put(&mut self, x: u8) { self.b[self.n] = x; self.n += 1 }

    /// RFC 8949 section 3: initial byte = major << 5 | info, argument big-endian in the shortest width that is
    /// at least `wide`.
    pub fn head(&mut self, major: u8, arg: u64, wide: u8) {
        let pref: u8 = if arg < 24 { 0 } else if arg <= 0xff { 1 } else if arg <= 0xffff { 2 } else if arg <= 0xffff_ffff { 3 } else { 4 };
        let c = if wide > pref { wide } else { pref };
        let m = major << 5;
        match c {
            0 => self.put(m | arg as u8),
            1 => { self.put(m | 24); self.put(arg as u8) }
            2 => { self.put(m | 25); self.put((arg >> 8) as u8); self.put(arg as u8) }
            3 => { self.put(m | 26); self.put((arg >> 24) as u8); self.put((arg >> 16) as u8); self.put((arg >> 8) as u8); self.put(arg as u8) }
            _ => {
                self.put(m | 27);
                self.put((arg >> 56) as u8); self.put((arg >> 48) as u8); self.put((arg >> 40) as u8); self.put((arg >> 32) as u8);
                self.put((arg >> 24) as u8); self.put((arg >> 16) as u8); self.put((arg >> 8) as u8); self.put(arg as u8)
            }
        }
    }

    pub fn item(&mut self, f: &F, nested: &Out<RAW>, wide: u8) {
        if f.kind == K_U {
            self.head(0, f.val, wide)
        } else if f.kind == K_I {
            let v = f.val as i64;
            if v >= 0 { self.head(0, v as u64, wide) } else { self.head(1, (-1 - v) as u64, wide) }
        } else if f.kind == K_BOOL {
            self.put(if f.val != 0 { 0xf5 } else { 0xf4 })
        } else if f.kind == K_BYTES4 {
            self.head(2, 4, wide);
            self.put((f.val >> 24) as u8); self.put((f.val >> 16) as u8); self.put((f.val >> 8) as u8); self.put(f.val as u8)
        } else {
            let mut i = 0;
            while i < RAW { if i < nested.n { self.put(nested.b[i]) } i += 1 }
        }
    }

    /// `<<struct-as-array encoding>>` / `<<struct-as-map encoding>>`, preceded by the tag if there is one.
    /// `fs` lists the (non-skipped) fields in ascending index order - declaration order and names are not part of
    /// the schema.  `nested` is the pre-encoded value of the (at most one) field of kind K_NESTED.
    ///  array: `array(n)` with n = highest index holding a value + 1; position i holds the field with index i, NULL
    ///         where there is no such field or its value is absent; a field tag precedes what is written for the field
    ///  map:   `map(n)` with n = number of fields holding a value; ascending `index value` pairs; absent values are
    ///         not encoded
    pub fn structure_n(&mut self, map: bool, tag: u64, fs: &[F], nested: &Out<RAW>, fr: Fr) {
        if tag != NOTAG { self.head(6, tag, fr.wide) }
        if map {
            let mut cnt: u64 = 0;
            let mut j = 0;
            while j < fs.len() { if fs[j].present { cnt += 1 } j += 1 }
            if fr.indef { self.put(0xbf) } else { self.head(5, cnt, fr.wide) }
            let mut j = 0;
            while j < fs.len() {
                if fs[j].present {
                    self.head(0, fs[j].idx as u64, fr.wide);
                    if fs[j].tag != NOTAG { self.head(6, fs[j].tag, fr.wide) }
                    self.item(&fs[j], nested, fr.wide)
                }
                j += 1
            }
            if fr.indef { self.put(0xff) }
        } else {
            let mut n: u64 = 0;
            let mut j = 0;
            while j < fs.len() { if fs[j].present { n = fs[j].idx as u64 + 1 } j += 1 }
            if fr.indef { self.put(0x9f) } else { self.head(4, n, fr.wide) }
            let top: u32 = if fs.is_empty() { 0 } else { fs[fs.len() - 1].idx + 1 };
            let mut k = 0usize;
            let mut i: u32 = 0;
            while i < top {
                let here = k < fs.len() && fs[k].idx == i;
                if (i as u64) < n {
                    if here {
                        if fs[k].tag != NOTAG { self.head(6, fs[k].tag, fr.wide) }
                        if fs[k].present { self.item(&fs[k], nested, fr.wide) } else { self.put(0xf6) }
                    } else {
                        self.put(0xf6)
                    }
                }
                if here { k += 1 }
                i += 1
            }
            if fr.indef { self.put(0xff) }
        }
    }

    pub fn structure(&mut self, map: bool, tag: u64, fs: &[F], fr: Fr) {
        let none = Out::<RAW>::new();
        self.structure_n(map, tag, fs, &none, fr)
    }

    /// `<<enum encoding>>` = `array(2) n <<struct encoding>>`: this writes `[tag] array(2) n`, the caller continues
    /// with `structure` (a variant-level tag is the struct tag there).  For `index_only` enums: `[tag] n` and nothing else.
    pub fn enum_prefix(&mut self, enum_tag: u64, index_only: bool, variant: u32, fr: Fr) {
        if enum_tag != NOTAG { self.head(6, enum_tag, fr.wide) }
        if !index_only { self.head(4, 2, fr.wide) }
        self.head(0, variant as u64, fr.wide)
    }
}

pub fn raw_of<const N: usize>(o: &Out<N>) -> Out<RAW> {
    let mut r = Out::<RAW>::new();
    let mut i = 0;
    while i < RAW { if i < N && i < o.n { r.put(o.b[i]) } i += 1 }
    r
}

// =====================================================================================================================
// `Decoder::skip` replaced by an executable rendering of its CONTRACT (C06, discharged there): "advance the cursor
// to the end of the data item that starts at the cursor; fail if the item is truncated".  Public API only.
// Domain: items nested at most two levels deep with definite lengths, plus a bare BREAK (the derived decoders call
// `skip` on the break of an indefinite container).  Outside the domain the stub FAILS the harness (assert), it never
// assumes anything away.
// =====================================================================================================================

/// (major, info, argument, head length) of the head at `p`, None if truncated / reserved
fn head_at(buf: &[u8], p: usize) -> Option<(u8, u8, u64, usize)> {
    if p >= buf.len() { return None }
    let ib = buf[p];
    let (major, info) = (ib >> 5, ib & 0x1f);
    let w: usize = match info { 0..=23 => 0, 24 => 1, 25 => 2, 26 => 4, 27 => 8, 31 => return Some((major, info, 0, 1)), _ => return None };
    if buf.len() - p < 1 + w { return None }
    let b = |i: usize| buf[p + 1 + i] as u64;
    let arg = match w {
        0 => info as u64,
        1 => b(0),
        2 => (b(0) << 8) | b(1),
        4 => (b(0) << 24) | (b(1) << 16) | (b(2) << 8) | b(3),
        _ => (b(0) << 56) | (b(1) << 48) | (b(2) << 40) | (b(3) << 32) | (b(4) << 24) | (b(5) << 16) | (b(6) << 8) | b(7),
    };
    Some((major, info, arg, 1 + w))
}

/// end of an item without nested items
fn end0(buf: &[u8], p: usize) -> Option<usize> {
    let (major, info, arg, hlen) = head_at(buf, p)?;
    match major {
        0 | 1 | 7 => Some(p + hlen),
        2 | 3 => {
            assert!(info != 31, "skip stub: indefinite string outside the stub's domain");
            if arg > (buf.len() - p - hlen) as u64 { None } else { Some(p + hlen + arg as usize) }
        }
        4 | 5 => {
            assert!(info != 31 && arg == 0, "skip stub: nesting deeper than the stub's domain");
            Some(p + hlen)
        }
        _ => { assert!(false, "skip stub: nesting deeper than the stub's domain"); None }
    }
}

/// end of an item whose nested items are leaves: containers of at most 4 items (the loop has a constant bound)
fn end1(buf: &[u8], p: usize) -> Option<usize> {
    let (major, info, arg, hlen) = head_at(buf, p)?;
    match major {
        4 | 5 => {
            assert!(info != 31, "skip stub: indefinite container outside the stub's domain");
            let n = if major == 4 { arg } else { 2 * arg };
            assert!(n <= 4, "skip stub: container longer than the stub's domain");
            let mut q = p + hlen;
            let mut i = 0;
            while i < 4 { if i < n { q = end0(buf, q)? } i += 1 }
            Some(q)
        }
        6 => end0(buf, p + hlen),
        _ => end0(buf, p),
    }
}

/// end of an item nested two levels: an array of at most 2 items that are in `end1`'s domain (e.g. an enum `[n, body]`)
fn end2(buf: &[u8], p: usize) -> Option<usize> {
    let (major, info, arg, hlen) = head_at(buf, p)?;
    match major {
        4 => {
            assert!(info != 31 && arg <= 2, "skip stub: container outside the stub's domain");
            let mut q = p + hlen;
            if arg >= 1 { q = end1(buf, q)? }
            if arg >= 2 { q = end1(buf, q)? }
            Some(q)
        }
        _ => end1(buf, p),
    }
}

macro_rules! skip_stub {
    ($name:ident, $end:ident) => {
        #[cfg(kani)]
        pub fn $name<'b>(d: &mut Decoder<'b>) -> Result<(), minicbor::decode::Error> where 'b: 'b {
            let buf = d.input();
            let p = d.position();
            match $end(buf, p) {
                Some(q) => { d.set_position(q); Ok(()) }
                None => Err(minicbor::decode::Error::end_of_input()),
            }
        }
    }
}
skip_stub!(skip0, end0);
skip_stub!(skip1, end1);
skip_stub!(skip2, end2);

// =====================================================================================================================
// Harness templates
// =====================================================================================================================

/// C08 + C07: derived `encode` of a fully symbolic value (values AND presence) == reference, `cbor_len` == bytes written.
macro_rules! enc_harness {
    ($name:ident, $t:ty, $cap:expr, $reff:path, |$v:ident| $assume:expr, $cover:expr) => {
        #[cfg(kani)]
        #[kani::proof]
        fn $name() {
            let $v: $t = kani::any();
            kani::assume($assume);
            let init: [u8; $cap] = kani::any();
            let mut e = Encoder::new(Cursor::new(init));
            let ok = $v.encode(&mut e, &mut ()).is_ok();
            assert!(ok, "encoding into a sufficient buffer succeeds");
            let c = e.into_writer();
            let n = c.position();
            let got = c.into_inner();
            let mut want = Out::<$cap>::new();
            $reff(&mut want, &$v, PREF);
            assert!(n == want.n, "C08: number of bytes");
            let mut i = 0;
            while i < $cap { if i < n { assert!(got[i] == want.b[i], "C08: bytes equal the documented format") } i += 1 }
            assert!($v.cbor_len(&mut ()) == n, "C07: cbor_len == bytes written");
            kani::cover!($cover);
        }
    }
}

/// C09 / C10: reader type `$rt` decodes the reference encoding (framing `$fr`) of the writer value `$mk` of type `$wt`
/// (presence concrete, leaves symbolic) to `$expect`, consuming exactly the input.  `$skip` = which rendering of the
/// contract of `Decoder::skip` is used (skip0: leaves, skip1: containers of leaves, skip2: `[n, container of leaves]`).
macro_rules! dec_harness {
    ($name:ident, $skip:ident, $wt:ty => $rt:ty, $cap:expr, $reff:path, $fr:expr, $mk:expr, |$v:ident| $expect:expr) => {
        #[cfg(kani)]
        #[kani::proof]
        #[kani::stub(minicbor::decode::Decoder::skip, $skip)]
        #[kani::unwind(8)]
        fn $name() {
            let $v: $wt = $mk;
            let mut inp = Out::<$cap>::new();
            $reff(&mut inp, &$v, $fr);
            let mut d = Decoder::new(&inp.b[.. inp.n]);
            let r: Result<$rt, minicbor::decode::Error> = Decode::decode(&mut d, &mut ());
            match r {
                Ok(w) => {
                    let want: $rt = $expect;
                    assert!(w == want, "decoded value");
                    assert!(d.position() == inp.n, "exact consumption");
                }
                Err(_) => assert!(false, "decoding the reference encoding succeeds"),
            }
            kani::cover!(inp.n >= 1);
        }
    };
    ($name:ident, $t:ty, $cap:expr, $reff:path, $fr:expr, $mk:expr) => {
        dec_harness!($name, skip0, $t => $t, $cap, $reff, $fr, $mk, |v| v);
    };
}

// =====================================================================================================================
// The family
// =====================================================================================================================

// ---- A: array encoding, gap at index 1, optional in the middle -------------------------------------------------------
#[derive(Encode, Decode, CborLen, PartialEq, Clone, Copy)]
#[cfg_attr(kani, derive(kani::Arbitrary))]
pub struct A { #[n(0)] a: u8, #[n(2)] b: Option<u16>, #[n(3)] c: bool }

fn ref_a<const N: usize>(o: &mut Out<N>, v: &A, fr: Fr) {
    o.structure(false, NOTAG, &[fu(0, v.a as u64), ou(2, &v.b), fb(3, v.c)], fr)
}

// @harness name=enc_a props=C08,C07 kind=complete
enc_harness!(enc_a, A, 16, ref_a, |v| true, v.b.is_some() && v.a >= 24);
// @harness name=dec_a_m0 props=C09 kind=complete
dec_harness!(dec_a_m0, A, 16, ref_a, PREF, A { a: kani::any(), b: None, c: kani::any() });
// @harness name=dec_a_m1 props=C09 kind=complete
dec_harness!(dec_a_m1, A, 16, ref_a, PREF, A { a: kani::any(), b: Some(kani::any()), c: kani::any() });
dec_harness!(x_a_wide2, A, 16, ref_a, WIDE2, A { a: kani::any(), b: Some(kani::any()), c: kani::any() });
dec_harness!(x_a_indef, A, 16, ref_a, INDEF, A { a: kani::any(), b: None, c: kani::any() });

// ---- M: map encoding with gaps, two optional fields ------------------------------------------------------------------
#[derive(Encode, Decode, CborLen, PartialEq, Clone, Copy)]
#[cfg_attr(kani, derive(kani::Arbitrary))]
#[cbor(map)]
pub struct M { #[n(0)] a: u8, #[n(2)] b: Option<u16>, #[n(5)] c: Option<bool> }

fn ref_m<const N: usize>(o: &mut Out<N>, v: &M, fr: Fr) {
    o.structure(true, NOTAG, &[fu(0, v.a as u64), ou(2, &v.b), ob(5, &v.c)], fr)
}

// @harness name=enc_m props=C08,C07 kind=complete
enc_harness!(enc_m, M, 16, ref_m, |v| true, v.b.is_some() && v.c.is_none());
// @harness name=dec_m_m3 props=C09 kind=complete
dec_harness!(dec_m_m3, M, 16, ref_m, PREF, M { a: kani::any(), b: Some(kani::any()), c: Some(kani::any()) });
