// Kani unit family `derive_family`: the REAL `#[derive(Encode, Decode, CborLen)]` expanded on a fixed family of
// type definitions; the derived functions are checked against a schema-driven reference encoder written from the
// documented wire format (minicbor-derive/src/lib.rs, section "CBOR encoding") and RFC 8949 section 3.
//   C08  derived encode == ref_encode (byte for byte), all values and all presence combinations
//   C07  derived cbor_len == number of bytes written
//   C09  derived decode(ref_encode(v)) == v with exact consumption (one harness per presence mask; input built by direct
//        array stores, structure concrete, leaves symbolic; `Decoder::skip` replaced by its contract), re-framed inputs, errors
//   C10  reader version decodes the writer version's ref_encode
// The round trip of C09 is the composition  encode(v) == ref_encode(v)  (enc_* harness)  and  decode(ref_encode(v)) == v
// (dec_* harnesses): never chained in one harness (see notes/feas_kani_derive_and_skip.md).
#![no_std]
#![allow(dead_code, unused_imports, unused_macros)]

use minicbor::{Encode, Decode, CborLen, Encoder, Decoder};
use minicbor::encode::write::Cursor;

// =====================================================================================================================
// Reference encoder (plain Rust; every loop has a bound that is a constant of the schema)
// =====================================================================================================================

/// Output buffer written by direct array stores only.
#[derive(Clone, Copy)]
pub struct Out<const N: usize> { pub b: [u8; N], pub n: usize }

/// Capacity of a pre-encoded nested item.
pub const RAW: usize = 12;

/// A leaf (or pre-encoded nested) data item.
#[derive(Clone, Copy)]
pub enum Item {
    /// unsigned integer
    U(u64),
    /// signed integer
    I(i64),
    Bool(bool),
    /// byte string of length 4 (`with = "minicbor::bytes"` on `[u8; 4]`)
    Bytes4([u8; 4]),
    /// an item already encoded by the reference encoder (nested struct / enum)
    Raw(Out<RAW>),
}

/// One field of a struct / variant: index, optional tag, value (`None` = absent optional value).
#[derive(Clone, Copy)]
pub struct F { pub idx: u32, pub tag: Option<u64>, pub val: Option<Item> }

pub fn req(idx: u32, it: Item) -> F { F { idx, tag: None, val: Some(it) } }
pub fn opt(idx: u32, it: Option<Item>) -> F { F { idx, tag: None, val: it } }
pub fn tagged(t: u64, f: F) -> F { F { tag: Some(t), ..f } }

/// Framing of the encoding: what `Encode` produces is `PREF`; the others are equivalent encodings of the same
/// value that a decoder must accept (RFC 8949: indefinite-length containers, non-preferred argument widths).
#[derive(Clone, Copy)]
pub struct Fr {
    /// the struct-shaped container (array / map holding the fields) is indefinite-length
    pub indef: bool,
    /// minimal width class of every head argument: 0 preferred, 1 = 1 byte, 2 = 2 bytes, 3 = 4 bytes, 4 = 8 bytes
    pub wide: u8,
}
pub const PREF: Fr = Fr { indef: false, wide: 0 };
pub const INDEF: Fr = Fr { indef: true, wide: 0 };
pub const WIDE1: Fr = Fr { indef: false, wide: 1 };
pub const WIDE2: Fr = Fr { indef: false, wide: 2 };

impl<const N: usize> Out<N> {
    pub fn new() -> Self { Out { b: [0; N], n: 0 } }

    #[inline(always)]
    pub fn put(&mut self, x: u8) { self.b[self.n] = x; self.n += 1 }

    /// RFC 8949 section 3: initial byte = major << 5 | info, argument big-endian in the shortest width that is
    /// at least `wide`.
    pub fn head(&mut self, major: u8, arg: u64, wide: u8) {
        let pref: u8 = if arg < 24 { 0 } else if arg <= 0xff { 1 } else if arg <= 0xffff { 2 } else if arg <= 0xffff_ffff { 3 } else { 4 };
        let c = if wide > pref { wide } else { pref };
        let m = major << 5;
        match c {
            0 => self.put(m | arg as u8),
            1 => { self.put(m | 24); self.put(arg as u8) }
            2 => { self.put(m | 25); self.put((arg >> 8) as u8); self.put(arg as u8) }
            3 => { self.put(m | 26); self.put((arg >> 24) as u8); self.put((arg >> 16) as u8); self.put((arg >> 8) as u8); self.put(arg as u8) }
            _ => {
                self.put(m | 27);
                self.put((arg >> 56) as u8); self.put((arg >> 48) as u8); self.put((arg >> 40) as u8); self.put((arg >> 32) as u8);
                self.put((arg >> 24) as u8); self.put((arg >> 16) as u8); self.put((arg >> 8) as u8); self.put(arg as u8)
            }
        }
    }

    pub fn item(&mut self, it: &Item, wide: u8) {
        match *it {
            Item::U(v) => self.head(0, v, wide),
            Item::I(v) => if v >= 0 { self.head(0, v as u64, wide) } else { self.head(1, (-1 - v) as u64, wide) },
            Item::Bool(b) => self.put(if b { 0xf5 } else { 0xf4 }),
            Item::Bytes4(x) => { self.head(2, 4, wide); self.put(x[0]); self.put(x[1]); self.put(x[2]); self.put(x[3]) }
            Item::Raw(ref r) => { let mut i = 0; while i < RAW { if i < r.n { self.put(r.b[i]) } i += 1 } }
        }
    }

    /// `<<struct-as-array encoding>>` / `<<struct-as-map encoding>>`, preceded by the tag if there is one.
    /// `fs` lists the (non-skipped) fields in ascending index order - declaration order and names are not part of
    /// the schema.
    ///  array: `array(n)` with n = highest index holding a value + 1; position i holds the field with index i, NULL
    ///         where there is no such field or its value is absent; a field tag precedes what is written for the field
    ///  map:   `map(n)` with n = number of fields holding a value; ascending `index value` pairs; absent values are
    ///         not encoded
    pub fn structure(&mut self, map: bool, tag: Option<u64>, fs: &[F], fr: Fr) {
        if let Some(t) = tag { self.head(6, t, fr.wide) }
        if map {
            let mut cnt: u64 = 0;
            for f in fs { if f.val.is_some() { cnt += 1 } }
            if fr.indef { self.put(0xbf) } else { self.head(5, cnt, fr.wide) }
            for f in fs {
                if let Some(it) = &f.val {
                    self.head(0, f.idx as u64, fr.wide);
                    if let Some(t) = f.tag { self.head(6, t, fr.wide) }
                    self.item(it, fr.wide)
                }
            }
            if fr.indef { self.put(0xff) }
        } else {
            let mut n: u64 = 0;
            for f in fs { if f.val.is_some() { n = f.idx as u64 + 1 } }
            if fr.indef { self.put(0x9f) } else { self.head(4, n, fr.wide) }
            let top: u32 = if fs.is_empty() { 0 } else { fs[fs.len() - 1].idx + 1 };
            let mut k = 0usize;
            let mut i: u32 = 0;
            while i < top {
                let here = k < fs.len() && fs[k].idx == i;
                if (i as u64) < n {
                    if here {
                        if let Some(t) = fs[k].tag { self.head(6, t, fr.wide) }
                        match &fs[k].val { Some(it) => self.item(it, fr.wide), None => self.put(0xf6) }
                    } else {
                        self.put(0xf6)
                    }
                }
                if here { k += 1 }
                i += 1
            }
            if fr.indef { self.put(0xff) }
        }
    }

    /// `<<enum encoding>>`: `array(2) n <<struct encoding>>`, or the bare `n` for `index_only`; an enum-level tag
    /// precedes the whole, a variant-level tag precedes the variant value.
    pub fn enumeration(&mut self, enum_tag: Option<u64>, index_only: bool, variant: u32, variant_tag: Option<u64>, map: bool, fs: &[F], fr: Fr) {
        if let Some(t) = enum_tag { self.head(6, t, fr.wide) }
        if index_only { self.head(0, variant as u64, fr.wide); return }
        self.head(4, 2, fr.wide);
        self.head(0, variant as u64, fr.wide);
        self.structure(map, variant_tag, fs, fr)
    }
}

pub fn raw_of<const N: usize>(o: &Out<N>) -> Out<RAW> {
    let mut r = Out::<RAW>::new();
    let mut i = 0;
    while i < RAW { if i < N && i < o.n { r.put(o.b[i]) } i += 1 }
    r
}

// =====================================================================================================================
// `Decoder::skip` replaced by an executable rendering of its CONTRACT (C06, discharged there): "advance the cursor
// to the end of the data item that starts at the cursor; fail if the item is truncated".  Public API only.
// Domain: items nested at most two levels deep with definite lengths, plus a bare BREAK (the derived decoders call
// `skip` on the break of an indefinite container).  Outside the domain the stub FAILS the harness (assert), it never
// assumes anything away.
// =====================================================================================================================

/// (major, info, argument, head length) of the head at `p`, None if truncated / reserved
fn head_at(buf: &[u8], p: usize) -> Option<(u8, u8, u64, usize)> {
    if p >= buf.len() { return None }
    let ib = buf[p];
    let (major, info) = (ib >> 5, ib & 0x1f);
    let w: usize = match info { 0..=23 => 0, 24 => 1, 25 => 2, 26 => 4, 27 => 8, 31 => return Some((major, info, 0, 1)), _ => return None };
    if buf.len() - p < 1 + w { return None }
    let b = |i: usize| buf[p + 1 + i] as u64;
    let arg = match w {
        0 => info as u64,
        1 => b(0),
        2 => (b(0) << 8) | b(1),
        4 => (b(0) << 24) | (b(1) << 16) | (b(2) << 8) | b(3),
        _ => (b(0) << 56) | (b(1) << 48) | (b(2) << 40) | (b(3) << 32) | (b(4) << 24) | (b(5) << 16) | (b(6) << 8) | b(7),
    };
    Some((major, info, arg, 1 + w))
}

/// end of an item without nested items
fn end0(buf: &[u8], p: usize) -> Option<usize> {
    let (major, info, arg, hlen) = head_at(buf, p)?;
    match major {
        0 | 1 | 7 => Some(p + hlen),
        2 | 3 => {
            assert!(info != 31, "skip stub: indefinite string outside the stub's domain");
            if arg > (buf.len() - p - hlen) as u64 { None } else { Some(p + hlen + arg as usize) }
        }
        4 | 5 => {
            assert!(info != 31 && arg == 0, "skip stub: nesting deeper than the stub's domain");
            Some(p + hlen)
        }
        _ => { assert!(false, "skip stub: nesting deeper than the stub's domain"); None }
    }
}

macro_rules! end_level {
    ($name:ident, $inner:ident) => {
        fn $name(buf: &[u8], p: usize) -> Option<usize> {
            let (major, info, arg, hlen) = head_at(buf, p)?;
            match major {
                4 | 5 => {
                    assert!(info != 31, "skip stub: indefinite container outside the stub's domain");
                    assert!(arg <= 8, "skip stub: container longer than the stub's domain");
                    let n = if major == 4 { arg } else { 2 * arg };
                    let mut q = p + hlen;
                    let mut i = 0;
                    while i < n { q = $inner(buf, q)?; i += 1 }
                    Some(q)
                }
                6 => $inner(buf, p + hlen),
                _ => end0(buf, p),
            }
        }
    }
}
end_level!(end1, end0);
end_level!(end2, end1);

#[cfg(kani)]
pub fn skip_contract<'b>(d: &mut Decoder<'b>) -> Result<(), minicbor::decode::Error> where 'b: 'b {
    let buf = d.input();
    let p = d.position();
    match end2(buf, p) {
        Some(q) => { d.set_position(q); Ok(()) }
        None => Err(minicbor::decode::Error::end_of_input()),
    }
}

// =====================================================================================================================
// Harness templates
// =====================================================================================================================

/// C08 + C07: derived `encode` of a fully symbolic value (values AND presence) == reference, `cbor_len` == bytes written.
macro_rules! enc_harness {
    ($name:ident, $t:ty, $cap:expr, $reff:path, |$v:ident| $assume:expr, $cover:expr) => {
        #[cfg(kani)]
        #[kani::proof]
        fn $name() {
            let $v: $t = kani::any();
            kani::assume($assume);
            let init: [u8; $cap] = kani::any();
            let mut e = Encoder::new(Cursor::new(init));
            let ok = $v.encode(&mut e, &mut ()).is_ok();
            assert!(ok, "encoding into a sufficient buffer succeeds");
            let c = e.into_writer();
            let n = c.position();
            let got = c.into_inner();
            let mut want = Out::<$cap>::new();
            $reff(&mut want, &$v, PREF);
            assert!(n == want.n, "C08: number of bytes");
            let mut i = 0;
            while i < $cap { if i < n { assert!(got[i] == want.b[i], "C08: bytes equal the documented format") } i += 1 }
            assert!($v.cbor_len(&mut ()) == n, "C07: cbor_len == bytes written");
            kani::cover!($cover);
        }
    }
}

/// C09 / C10: reader type `$rt` decodes the reference encoding (framing `$fr`) of the writer value `$mk` of type `$wt`
/// (presence concrete, leaves symbolic) to `$expect`, consuming exactly the input.
macro_rules! dec_harness {
    ($name:ident, $wt:ty => $rt:ty, $cap:expr, $reff:path, $fr:expr, $mk:expr, |$v:ident| $expect:expr) => {
        #[cfg(kani)]
        #[kani::proof]
        #[kani::stub(minicbor::decode::Decoder::skip, crate::skip_contract)]
        #[kani::unwind(10)]
        fn $name() {
            let $v: $wt = $mk;
            let mut inp = Out::<$cap>::new();
            $reff(&mut inp, &$v, $fr);
            let mut d = Decoder::new(&inp.b[.. inp.n]);
            let r: Result<$rt, minicbor::decode::Error> = Decode::decode(&mut d, &mut ());
            match r {
                Ok(w) => {
                    let want: $rt = $expect;
                    assert!(w == want, "decoded value");
                    assert!(d.position() == inp.n, "exact consumption");
                }
                Err(_) => assert!(false, "decoding the reference encoding succeeds"),
            }
            kani::cover!(inp.n >= 1);
        }
    };
    ($name:ident, $t:ty, $cap:expr, $reff:path, $fr:expr, $mk:expr) => {
        dec_harness!($name, $t => $t, $cap, $reff, $fr, $mk, |v| v);
    };
}

// =====================================================================================================================
// The family
// =====================================================================================================================

fn u(x: impl Into<u64>) -> Item { Item::U(x.into()) }
fn ou<T: Into<u64> + Copy>(x: &Option<T>) -> Option<Item> { match x { Some(v) => Some(Item::U((*v).into())), None => None } }
fn ob(x: &Option<bool>) -> Option<Item> { match x { Some(v) => Some(Item::Bool(*v)), None => None } }

// ---- A: array encoding, gap at index 1, optional in the middle -------------------------------------------------------
#[derive(Encode, Decode, CborLen, PartialEq, Clone, Copy)]
#[cfg_attr(kani, derive(kani::Arbitrary))]
pub struct A { #[n(0)] a: u8, #[n(2)] b: Option<u16>, #[n(3)] c: bool }

fn ref_a<const N: usize>(o: &mut Out<N>, v: &A, fr: Fr) {
    o.structure(false, None, &[req(0, u(v.a)), opt(2, ou(&v.b)), req(3, Item::Bool(v.c))], fr)
}

// @harness name=enc_a props=C08,C07 kind=complete
enc_harness!(enc_a, A, 16, ref_a, |v| true, v.b.is_some() && v.a >= 24);
// @harness name=dec_a_m0 props=C09 kind=complete
dec_harness!(dec_a_m0, A, 16, ref_a, PREF, A { a: kani::any(), b: None, c: kani::any() });
// @harness name=dec_a_m1 props=C09 kind=complete
dec_harness!(dec_a_m1, A, 16, ref_a, PREF, A { a: kani::any(), b: Some(kani::any()), c: kani::any() });

// ---- M: map encoding with gaps, two optional fields ------------------------------------------------------------------
#[derive(Encode, Decode, CborLen, PartialEq, Clone, Copy)]
#[cfg_attr(kani, derive(kani::Arbitrary))]
#[cbor(map)]
pub struct M { #[n(0)] a: u8, #[n(2)] b: Option<u16>, #[n(5)] c: Option<bool> }

fn ref_m<const N: usize>(o: &mut Out<N>, v: &M, fr: Fr) {
    o.structure(true, None, &[req(0, u(v.a)), opt(2, ou(&v.b)), opt(5, ob(&v.c))], fr)
}

// @harness name=enc_m props=C08,C07 kind=complete
enc_harness!(enc_m, M, 16, ref_m, |v| true, v.b.is_some() && v.c.is_none());
// @harness name=dec_m_m3 props=C09 kind=complete
dec_harness!(dec_m_m3, M, 16, ref_m, PREF, M { a: kani::any(), b: Some(kani::any()), c: Some(kani::any()) });

// ---- EXPERIMENTS (temporary) ----
#[derive(Encode, Decode, CborLen, PartialEq, Clone, Copy)]
#[cfg_attr(kani, derive(kani::Arbitrary))]
pub struct B { #[n(0)] a: bool, #[n(2)] b: Option<bool>, #[n(3)] c: Option<bool> }
fn ref_b<const N: usize>(o: &mut Out<N>, v: &B, fr: Fr) {
    o.structure(false, None, &[req(0, Item::Bool(v.a)), opt(2, ob(&v.b)), opt(3, ob(&v.c))], fr)
}
dec_harness!(x_b_m3, B, 16, ref_b, PREF, B { a: kani::any(), b: Some(kani::any()), c: Some(kani::any()) });
dec_harness!(x_b_m2, B, 16, ref_b, PREF, B { a: kani::any(), b: None, c: Some(kani::any()) });

#[cfg(kani)]
#[kani::proof]
#[kani::stub(minicbor::decode::Decoder::skip, crate::skip_contract)]
#[kani::unwind(10)]
fn x_b_lit() {
    let y: bool = kani::any(); let a: bool = kani::any();
    let bb = |x: bool| if x { 0xf5u8 } else { 0xf4 };
    let inp = [0x84u8, bb(a), 0xf6, 0xf6, bb(y)];
    let mut d = Decoder::new(&inp[..]);
    let r: Result<B, minicbor::decode::Error> = Decode::decode(&mut d, &mut ());
    match r { Ok(w) => { assert!(w == B { a, b: None, c: Some(y) }); assert!(d.position() == 5) } Err(_) => assert!(false) }
}
#[cfg(kani)]
#[kani::proof]
#[kani::stub(minicbor::decode::Decoder::skip, crate::skip_contract)]
#[kani::unwind(10)]
fn x_a_wide() {
    let v = A { a: kani::any(), b: Some(kani::any()), c: kani::any() };
    let mut inp = Out::<16>::new();
    ref_a(&mut inp, &v, WIDE2);
    let mut d = Decoder::new(&inp.b[..]);
    let r: Result<A, minicbor::decode::Error> = Decode::decode(&mut d, &mut ());
    match r { Ok(w) => { assert!(w == v); assert!(d.position() == inp.n) } Err(_) => assert!(false) }
}
