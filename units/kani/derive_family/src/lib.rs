// Kani unit family `derive_family`: the REAL `#[derive(Encode, Decode, CborLen)]` expanded on a fixed family of
// type definitions; the derived functions are checked against a schema-driven reference encoder written from the
// documented wire format (minicbor-derive/src/lib.rs, section "CBOR encoding") and RFC 8949 section 3.
//   C08  derived encode == ref_encode (byte for byte), all values and all presence combinations
//   C07  derived cbor_len == number of bytes written
//   C09  derived decode(ref_encode(v)) == v with exact consumption (one harness per presence mask; input built by direct
//        array stores, structure concrete, leaves symbolic; `Decoder::skip` replaced by its contract), re-framed inputs, errors
//   C10  reader version decodes the writer version's ref_encode
// The round trip of C09 is the composition  encode(v) == ref_encode(v)  (enc_* harness)  and  decode(ref_encode(v)) == v
// (dec_* harnesses): never chained in one harness (see notes/feas_kani_derive_and_skip.md).
#![no_std]
#![allow(dead_code, unused_imports, unused_macros)]

use minicbor::{Encode, Decode, CborLen, Encoder, Decoder};
use minicbor::encode::write::Cursor;

/// assertion with a static message (in a no_std crate `chk!(c, "..")` reaches Kani as a formatted message and the text is lost)
#[cfg(kani)]
macro_rules! chk { ($c:expr, $m:literal) => { kani::assert($c, $m) } }
#[cfg(not(kani))]
macro_rules! chk { ($c:expr, $m:literal) => { assert!($c, $m) } }

// =====================================================================================================================
// Reference encoder (plain Rust; every loop has a bound that is a constant of the schema)
// =====================================================================================================================

/// Output buffer written by direct array stores only.
#[derive(Clone, Copy)]
pub struct Out<const N: usize> { pub b: [u8; N], pub n: usize }

/// Capacity of a pre-encoded nested item.
pub const RAW: usize = 7;

// The schema / value model is made of flat scalar records on purpose: CBMC's constant propagation follows scalar
// struct fields and index loops, but not Rust enums with payloads or slice iterators; with those the structure of the
// reference output is no longer concrete and decode-side harnesses do not terminate (measured: 8 s vs > 200 s).

/// kinds of leaf item
pub const K_U: u8 = 0;        // unsigned integer, `val` is the value
pub const K_I: u8 = 1;        // signed integer, `val` is the value as i64 bits
pub const K_BOOL: u8 = 2;     // `val` != 0
pub const K_BYTES4: u8 = 3;   // byte string of length 4 (`with = "minicbor::bytes"` on `[u8; 4]`), `val` = the bytes big-endian
pub const K_NESTED: u8 = 4;   // an item pre-encoded by the reference encoder (nested struct / enum), passed separately
pub const NOTAG: u64 = u64::MAX;

/// One field of a struct / variant: index, tag (or NOTAG), presence (false = absent optional value), leaf.
#[derive(Clone, Copy)]
pub struct F { pub idx: u32, pub tag: u64, pub present: bool, pub kind: u8, pub val: u64, pub w: u8 }
/// `w`: AUTO, or the width class (0..=4, see `Fr::wide`) the harness CLAIMS the preferred head of `val` has.  A claim
/// keeps the layout of the output concrete for CBMC (decode side); it is checked (`assert`) against the computed
/// class, so a wrong claim fails the harness instead of bending the reference.
pub const AUTO: u8 = 0xff;

pub fn fu(idx: u32, v: u64) -> F { F { idx, tag: NOTAG, present: true, kind: K_U, val: v, w: AUTO } }
pub fn fi(idx: u32, v: i64) -> F { F { idx, tag: NOTAG, present: true, kind: K_I, val: v as u64, w: AUTO } }
pub fn fb(idx: u32, v: bool) -> F { F { idx, tag: NOTAG, present: true, kind: K_BOOL, val: v as u64, w: AUTO } }
pub fn fbytes4(idx: u32, v: [u8; 4]) -> F { F { idx, tag: NOTAG, present: true, kind: K_BYTES4, val: u32::from_be_bytes(v) as u64, w: AUTO } }
pub fn fnested(idx: u32) -> F { F { idx, tag: NOTAG, present: true, kind: K_NESTED, val: 0, w: AUTO } }
pub fn absent(idx: u32) -> F { F { idx, tag: NOTAG, present: false, kind: K_U, val: 0, w: AUTO } }
pub fn tagged(t: u64, f: F) -> F { F { tag: t, ..f } }
pub fn cls(w: u8, f: F) -> F { F { w, ..f } }
/// optional fields
pub fn ou<T: Into<u64> + Copy>(idx: u32, x: &Option<T>) -> F { match x { Some(v) => fu(idx, (*v).into()), None => absent(idx) } }
pub fn oi<T: Into<i64> + Copy>(idx: u32, x: &Option<T>) -> F { match x { Some(v) => fi(idx, (*v).into()), None => absent(idx) } }
pub fn ob(idx: u32, x: &Option<bool>) -> F { match x { Some(v) => fb(idx, *v), None => absent(idx) } }

/// Framing of the encoding: what `Encode` produces is `PREF`; the others are equivalent encodings of the same
/// value that a decoder must accept (RFC 8949: indefinite-length containers, non-preferred argument widths).
#[derive(Clone, Copy)]
pub struct Fr {
    /// the struct-shaped container (array / map holding the fields) is indefinite-length
    pub indef: bool,
    /// minimal width class of every head argument: 0 preferred, 1 = 1 byte, 2 = 2 bytes, 3 = 4 bytes, 4 = 8 bytes
    pub wide: u8,
}
pub const PREF: Fr = Fr { indef: false, wide: 0 };
pub const INDEF: Fr = Fr { indef: true, wide: 0 };
pub const WIDE1: Fr = Fr { indef: false, wide: 1 };
pub const WIDE2: Fr = Fr { indef: false, wide: 2 };
pub const WIDE4: Fr = Fr { indef: false, wide: 4 };

impl<const N: usize> Out<N> {
    pub fn new() -> Self { Out { b: [0; N], n: 0 } }

    #[inline(always)]
    pub fn put(&mut self, x: u8) { self.b[self.n] = x; self.n += 1 }

    /// RFC 8949 section 3: initial byte = major << 5 | info, argument big-endian in the shortest width that is
    /// at least `wide`.
    pub fn head(&mut self, major: u8, arg: u64, wide: u8) { self.head_c(major, arg, wide, AUTO) }

    pub fn head_c(&mut self, major: u8, arg: u64, wide: u8, claim: u8) {
        let pref: u8 = if arg < 24 { 0 } else if arg <= 0xff { 1 } else if arg <= 0xffff { 2 } else if arg <= 0xffff_ffff { 3 } else { 4 };
        let pref = if claim != AUTO { chk!(claim == pref, "reference encoder: claimed width class is the preferred one"); claim } else { pref };
        let c = if wide > pref { wide } else { pref };
        let m = major << 5;
        match c {
            0 => self.put(m | arg as u8),
            1 => { self.put(m | 24); self.put(arg as u8) }
            2 => { self.put(m | 25); self.put((arg >> 8) as u8); self.put(arg as u8) }
            3 => { self.put(m | 26); self.put((arg >> 24) as u8); self.put((arg >> 16) as u8); self.put((arg >> 8) as u8); self.put(arg as u8) }
            _ => {
                self.put(m | 27);
                self.put((arg >> 56) as u8); self.put((arg >> 48) as u8); self.put((arg >> 40) as u8); self.put((arg >> 32) as u8);
                self.put((arg >> 24) as u8); self.put((arg >> 16) as u8); self.put((arg >> 8) as u8); self.put(arg as u8)
            }
        }
    }

    pub fn item(&mut self, f: &F, nested: &Out<RAW>, wide: u8) {
        if f.kind == K_U {
            self.head_c(0, f.val, wide, f.w)
        } else if f.kind == K_I {
            let v = f.val as i64;
            if v >= 0 { self.head_c(0, v as u64, wide, f.w) } else { self.head_c(1, (-1 - v) as u64, wide, f.w) }
        } else if f.kind == K_BOOL {
            self.put(if f.val != 0 { 0xf5 } else { 0xf4 })
        } else if f.kind == K_BYTES4 {
            self.head(2, 4, wide);
            self.put((f.val >> 24) as u8); self.put((f.val >> 16) as u8); self.put((f.val >> 8) as u8); self.put(f.val as u8)
        } else {
            let mut i = 0;
            while i < RAW { if i < nested.n { self.put(nested.b[i]) } i += 1 }
        }
    }

    /// `<<struct-as-array encoding>>` / `<<struct-as-map encoding>>`, preceded by the tag if there is one.
    /// `fs` lists the (non-skipped) fields in ascending index order - declaration order and names are not part of
    /// the schema.  `nested` is the pre-encoded value of the (at most one) field of kind K_NESTED.
    ///  array: `array(n)` with n = highest index holding a value + 1; position i holds the field with index i, NULL
    ///         where there is no such field or its value is absent; a field tag precedes what is written for the field
    ///  map:   `map(n)` with n = number of fields holding a value; ascending `index value` pairs; absent values are
    ///         not encoded
    pub fn structure_n(&mut self, map: bool, tag: u64, fs: &[F], nested: &Out<RAW>, fr: Fr) {
        if tag != NOTAG { self.head(6, tag, fr.wide) }
        if map {
            let mut cnt: u64 = 0;
            let mut j = 0;
            while j < fs.len() { if fs[j].present { cnt += 1 } j += 1 }
            if fr.indef { self.put(0xbf) } else { self.head(5, cnt, fr.wide) }
            let mut j = 0;
            while j < fs.len() {
                if fs[j].present {
                    self.head(0, fs[j].idx as u64, fr.wide);
                    if fs[j].tag != NOTAG { self.head(6, fs[j].tag, fr.wide) }
                    self.item(&fs[j], nested, fr.wide)
                }
                j += 1
            }
            if fr.indef { self.put(0xff) }
        } else {
            let mut n: u64 = 0;
            let mut j = 0;
            while j < fs.len() { if fs[j].present { n = fs[j].idx as u64 + 1 } j += 1 }
            if fr.indef { self.put(0x9f) } else { self.head(4, n, fr.wide) }
            let top: u32 = if fs.is_empty() { 0 } else { fs[fs.len() - 1].idx + 1 };
            let mut k = 0usize;
            let mut i: u32 = 0;
            while i < top {
                let here = k < fs.len() && fs[k].idx == i;
                if (i as u64) < n {
                    if here {
                        if fs[k].tag != NOTAG { self.head(6, fs[k].tag, fr.wide) }
                        if fs[k].present { self.item(&fs[k], nested, fr.wide) } else { self.put(0xf6) }
                    } else {
                        self.put(0xf6)
                    }
                }
                if here { k += 1 }
                i += 1
            }
            if fr.indef { self.put(0xff) }
        }
    }

    pub fn structure(&mut self, map: bool, tag: u64, fs: &[F], fr: Fr) {
        let none = Out::<RAW>::new();
        self.structure_n(map, tag, fs, &none, fr)
    }

    /// `<<enum encoding>>` = `array(2) n <<struct encoding>>`: this writes `[tag] array(2) n`, the caller continues
    /// with `structure` (a variant-level tag is the struct tag there).  For `index_only` enums: `[tag] n` and nothing else.
    pub fn enum_prefix(&mut self, enum_tag: u64, index_only: bool, variant: u32, fr: Fr) {
        if enum_tag != NOTAG { self.head(6, enum_tag, fr.wide) }
        if !index_only { self.head(4, 2, fr.wide) }
        self.head(0, variant as u64, fr.wide)
    }
}

pub fn raw_of<const N: usize>(o: &Out<N>) -> Out<RAW> {
    let mut r = Out::<RAW>::new();
    let mut i = 0;
    while i < RAW { if i < N && i < o.n { r.put(o.b[i]) } i += 1 }
    r
}

// =====================================================================================================================
// `Decoder::skip` replaced by an executable rendering of its CONTRACT (C06, discharged there): "advance the cursor
// to the end of the data item that starts at the cursor; fail if the item is truncated".  Public API only.
// Domain: items nested at most two levels deep with definite lengths, plus a bare BREAK (the derived decoders call
// `skip` on the break of an indefinite container).  Outside the domain the stub FAILS the harness (assert), it never
// assumes anything away.
// =====================================================================================================================

/// (major, info, argument, head length) of the head at `p`, None if truncated / reserved
fn head_at(buf: &[u8], p: usize) -> Option<(u8, u8, u64, usize)> {
    if p >= buf.len() { return None }
    let ib = buf[p];
    let (major, info) = (ib >> 5, ib & 0x1f);
    let w: usize = match info { 0..=23 => 0, 24 => 1, 25 => 2, 26 => 4, 27 => 8, 31 => return Some((major, info, 0, 1)), _ => return None };
    if buf.len() - p < 1 + w { return None }
    let b = |i: usize| buf[p + 1 + i] as u64;
    let arg = match w {
        0 => info as u64,
        1 => b(0),
        2 => (b(0) << 8) | b(1),
        4 => (b(0) << 24) | (b(1) << 16) | (b(2) << 8) | b(3),
        _ => (b(0) << 56) | (b(1) << 48) | (b(2) << 40) | (b(3) << 32) | (b(4) << 24) | (b(5) << 16) | (b(6) << 8) | b(7),
    };
    Some((major, info, arg, 1 + w))
}

/// end of an item without nested items
fn end0(buf: &[u8], p: usize) -> Option<usize> {
    let (major, info, arg, hlen) = head_at(buf, p)?;
    match major {
        0 | 1 | 7 => Some(p + hlen),
        2 | 3 => {
            chk!(info != 31, "skip stub: indefinite string outside the stub's domain");
            if arg > (buf.len() - p - hlen) as u64 { None } else { Some(p + hlen + arg as usize) }
        }
        4 | 5 => {
            chk!(info != 31 && arg == 0, "skip stub: nesting deeper than the stub's domain");
            Some(p + hlen)
        }
        _ => { chk!(false, "skip stub: nesting deeper than the stub's domain"); None }
    }
}

/// end of an item whose nested items are leaves: containers of at most 4 items (the loop has a constant bound)
fn end1(buf: &[u8], p: usize) -> Option<usize> {
    let (major, info, arg, hlen) = head_at(buf, p)?;
    match major {
        4 | 5 => {
            chk!(info != 31, "skip stub: indefinite container outside the stub's domain");
            let n = if major == 4 { arg } else { 2 * arg };
            chk!(n <= 4, "skip stub: container longer than the stub's domain");
            let mut q = p + hlen;
            let mut i = 0;
            while i < 4 { if i < n { q = end0(buf, q)? } i += 1 }
            Some(q)
        }
        6 => end0(buf, p + hlen),
        _ => end0(buf, p),
    }
}

/// end of an item nested two levels: an array of at most 2 items that are in `end1`'s domain (e.g. an enum `[n, body]`)
fn end2(buf: &[u8], p: usize) -> Option<usize> {
    let (major, info, arg, hlen) = head_at(buf, p)?;
    match major {
        4 => {
            chk!(info != 31 && arg <= 2, "skip stub: container outside the stub's domain");
            let mut q = p + hlen;
            if arg >= 1 { q = end1(buf, q)? }
            if arg >= 2 { q = end1(buf, q)? }
            Some(q)
        }
        _ => end1(buf, p),
    }
}

macro_rules! skip_stub {
    ($name:ident, $end:ident) => {
        #[cfg(kani)]
        pub fn $name<'b>(d: &mut Decoder<'b>) -> Result<(), minicbor::decode::Error> where 'b: 'b {
            let buf = d.input();
            let p = d.position();
            match $end(buf, p) {
                Some(q) => { d.set_position(q); Ok(()) }
                None => Err(minicbor::decode::Error::end_of_input()),
            }
        }
    }
}
skip_stub!(skip0, end0);
skip_stub!(skip1, end1);
skip_stub!(skip2, end2);

// =====================================================================================================================
// Harness templates
// =====================================================================================================================

/// width-class claims per integer leaf, in field order (encode side: all AUTO)
pub type Hints = [u8; 8];
pub const NOH: Hints = [AUTO; 8];
pub const fn h1(a: u8) -> Hints { [a, AUTO, AUTO, AUTO, AUTO, AUTO, AUTO, AUTO] }
pub const fn h2(a: u8, b: u8) -> Hints { [a, b, AUTO, AUTO, AUTO, AUTO, AUTO, AUTO] }
pub const fn h3(a: u8, b: u8, c: u8) -> Hints { [a, b, c, AUTO, AUTO, AUTO, AUTO, AUTO] }

/// symbolic integers restricted to one width class of their preferred head (class 0: argument < 24, 1: < 2^8, 2: < 2^16)
#[cfg(kani)] pub fn u8c(c: u8) -> u8 { let x: u8 = kani::any(); kani::assume(if c == 0 { x < 24 } else { x >= 24 }); x }
#[cfg(kani)] pub fn u16c(c: u8) -> u16 { let x: u16 = kani::any(); kani::assume(if c == 0 { x < 24 } else if c == 1 { x >= 24 && x <= 0xff } else { x > 0xff }); x }
#[cfg(kani)] pub fn i8c(c: u8) -> i8 { let x: i8 = kani::any(); kani::assume(if c == 0 { x >= -24 && x < 24 } else { x < -24 || x >= 24 }); x }

/// C08 + C07: derived `encode` of a fully symbolic value (values AND presence) == reference, `cbor_len` == bytes written.
/// `$assume`: class of values of the main harness (true unless a known defect is cut out); `$lenok`: class on which C07 is asserted.
macro_rules! enc_harness {
    ($name:ident, $t:ty, $cap:expr, $reff:path, |$v:ident| $assume:expr, $lenok:expr, $cover:expr) => {
        #[cfg(kani)]
        #[kani::proof]
        fn $name() {
            let $v: $t = kani::any();
            kani::assume($assume);
            let init: [u8; $cap] = kani::any();
            let mut e = Encoder::new(Cursor::new(init));
            let ok = $v.encode(&mut e, &mut ()).is_ok();
            chk!(ok, "encoding into a sufficient buffer succeeds");
            let c = e.into_writer();
            let n = c.position();
            let got = c.into_inner();
            let mut want = Out::<{ $cap + 8 }>::new();
            $reff(&mut want, &$v, &NOH, PREF);
            chk!(n == want.n, "C08: number of bytes");
            let mut i = 0;
            while i < $cap { if i < n { chk!(got[i] == want.b[i], "C08: bytes equal the documented format") } i += 1 }
            if $lenok { chk!($v.cbor_len(&mut ()) == n, "C07: cbor_len == bytes written") }
            kani::cover!($cover);
        }
    }
}

/// C09 / C10: reader type `$rt` decodes the reference encoding (framing `$fr`) of the writer value `$mk` of type `$wt`
/// (presence and width classes `$h` concrete, leaves symbolic) to `$expect`, consuming exactly the input.
/// `$skip` = which rendering of the contract of `Decoder::skip` is used (skip0: leaves, skip1: containers of leaves,
/// skip2: `[n, container of leaves]`).
macro_rules! dec_harness {
    ($name:ident, $skip:ident, $wt:ty => $rt:ty, $cap:expr, $reff:path, $fr:expr, $h:expr, |$hh:ident| $mk:expr, |$v:ident| $expect:expr) => {
        #[cfg(kani)]
        #[kani::proof]
        #[kani::stub(minicbor::decode::Decoder::skip, $skip)]
        #[kani::unwind(8)]
        fn $name() {
            let $hh: Hints = $h;
            let $v: $wt = $mk;
            let mut inp = Out::<$cap>::new();
            $reff(&mut inp, &$v, &$hh, $fr);
            let mut d = Decoder::new(&inp.b[.. inp.n]);
            let r: Result<$rt, minicbor::decode::Error> = Decode::decode(&mut d, &mut ());
            match r {
                Ok(w) => {
                    let want: $rt = $expect;
                    chk!(w == want, "decoded value");
                    chk!(d.position() == inp.n, "exact consumption");
                }
                Err(_) => chk!(false, "decoding the reference encoding succeeds"),
            }
            kani::cover!(inp.n >= 1);
        }
    };
    ($name:ident, $t:ty, $reff:path, $fr:expr, $h:expr, |$hh:ident| $mk:expr) => {
        dec_harness!($name, skip0, $t => $t, 24, $reff, $fr, $h, |$hh| $mk, |v| v);
    };
}

/// C09 errors: the derived decoder of `$rt` rejects `$bytes` with an error satisfying `$class`.
macro_rules! err_harness {
    ($name:ident, $rt:ty, $len:expr, $bytes:expr, |$e:ident| $class:expr) => {
        #[cfg(kani)]
        #[kani::proof]
        #[kani::stub(minicbor::decode::Decoder::skip, skip0)]
        #[kani::unwind(4)]
        fn $name() {
            let inp: [u8; $len] = $bytes;
            let mut d = Decoder::new(&inp[..]);
            let r: Result<$rt, minicbor::decode::Error> = Decode::decode(&mut d, &mut ());
            match r {
                Ok(_) => chk!(false, "must be rejected"),
                Err($e) => chk!($class, "error class"),
            }
            kani::cover!(true);
        }
    }
}

// =====================================================================================================================
// The family.  Definitions are listed verbatim in the evidence; leaves are fixed-size (u8 / u16 / i8 / bool / [u8; 4]),
// so `kani::any()` covers every value.  Decode-side definitions avoid `Option<bool>`: its niche layout makes the
// presence bit share a byte with the symbolic payload, and the structure of the input is then not concrete for CBMC.
// =====================================================================================================================

macro_rules! family { ($($i:item)*) => { $( #[derive(Encode, Decode, CborLen, PartialEq, Clone, Copy)] #[cfg_attr(kani, derive(kani::Arbitrary))] $i )* } }

family! {
    // array encoding, gap at index 1, optional field in the middle
    pub struct A { #[n(0)] a: u8, #[n(2)] b: Option<u16>, #[n(3)] c: bool }
    // array encoding, dense
    pub struct AD { #[n(0)] a: u8, #[n(1)] b: i8, #[n(2)] c: bool }
    // the same schema as AD with permuted declaration order, other names and `b` instead of `n`
    pub struct AP { #[b(2)] z: bool, #[n(0)] x: u8, #[cbor(n(1))] y: i8 }
    // array encoding, optional fields in first and last position
    pub struct O1 { #[n(0)] a: Option<u8>, #[n(1)] b: u8, #[n(2)] c: Option<bool> }
    // map encoding with index gaps, two optional fields
    #[cbor(map)] pub struct M { #[n(0)] a: u8, #[n(2)] b: Option<u16>, #[n(5)] c: Option<bool> }
    // map encoding, decode-side twin of M without Option<bool>, permuted declaration order
    #[cbor(map)] pub struct MP { #[n(5)] c: Option<i8>, #[n(0)] a: u8, #[n(2)] b: Option<u16> }
    // tuple struct with a gap
    pub struct T(#[n(0)] u8, #[n(1)] Option<u8>, #[n(3)] bool);
    // unit struct
    pub struct U;
    // tag at struct level and at field level (tag 300 has a 3-byte head)
    #[cbor(tag(7))] pub struct TG { #[cbor(n(0), tag(300))] a: u8, #[n(1)] b: bool }
    // the same in map encoding
    #[cbor(map, tag(7))] pub struct TGM { #[cbor(n(1), tag(300))] a: Option<u8>, #[n(2)] b: bool }
    // transparent newtype
    #[cbor(transparent)] pub struct TR(#[n(0)] u16);
    // skipped field
    pub struct SK { #[n(0)] a: u8, #[cbor(skip)] s: u8, #[n(1)] b: bool }
    // enum: unit / tuple / struct variants, array encoding (default), variant-level tag
    pub enum E { #[n(0)] V0, #[n(1)] V1(#[n(0)] u8, #[n(1)] Option<u8>), #[n(3)] V3 { #[n(0)] b: Option<u16>, #[n(2)] a: bool }, #[n(4)] #[cbor(tag(9))] V4(#[n(0)] bool) }
    // enum: map encoding at enum level, overridden per variant; enum-level tag
    #[cbor(map, tag(6))] pub enum EM { #[n(0)] V0, #[n(1)] V1 { #[n(0)] a: u8, #[n(3)] b: bool }, #[n(2)] #[cbor(array)] V2(#[n(0)] u8, #[n(1)] bool) }
    // enum with an optional field in a map-encoded variant (D4)
    #[cbor(map)] pub enum EO { #[n(0)] V0 { #[n(0)] a: u8, #[n(1)] b: Option<u8> } }
    // index_only enum (index 30 has a 2-byte head)
    #[cbor(index_only)] pub enum IO { #[n(0)] I0, #[n(1)] I1, #[n(30)] I30 }
    // byte string codec on a fixed-size array
    pub struct BY { #[n(0)] a: u8, #[cbor(n(1), with = "minicbor::bytes")] b: [u8; 4] }
    // tagged optional field in an array, below the highest index (D5)
    pub struct TO { #[cbor(n(0), tag(5))] a: Option<u8>, #[n(1)] b: bool }
}

fn ref_a<const N: usize>(o: &mut Out<N>, v: &A, h: &Hints, fr: Fr) {
    o.structure(false, NOTAG, &[cls(h[0], fu(0, v.a as u64)), cls(h[1], ou(2, &v.b)), fb(3, v.c)], fr)
}
fn ref_ad<const N: usize>(o: &mut Out<N>, v: &AD, h: &Hints, fr: Fr) {
    o.structure(false, NOTAG, &[cls(h[0], fu(0, v.a as u64)), cls(h[1], fi(1, v.b as i64)), fb(2, v.c)], fr)
}
fn ref_ap<const N: usize>(o: &mut Out<N>, v: &AP, h: &Hints, fr: Fr) {
    ref_ad(o, &AD { a: v.x, b: v.y, c: v.z }, h, fr)
}
fn ref_o1<const N: usize>(o: &mut Out<N>, v: &O1, h: &Hints, fr: Fr) {
    o.structure(false, NOTAG, &[cls(h[0], ou(0, &v.a)), cls(h[1], fu(1, v.b as u64)), ob(2, &v.c)], fr)
}
fn ref_m<const N: usize>(o: &mut Out<N>, v: &M, h: &Hints, fr: Fr) {
    o.structure(true, NOTAG, &[cls(h[0], fu(0, v.a as u64)), cls(h[1], ou(2, &v.b)), ob(5, &v.c)], fr)
}
fn ref_mp<const N: usize>(o: &mut Out<N>, v: &MP, h: &Hints, fr: Fr) {
    o.structure(true, NOTAG, &[cls(h[0], fu(0, v.a as u64)), cls(h[1], ou(2, &v.b)), cls(h[2], oi(5, &v.c))], fr)
}
fn ref_t<const N: usize>(o: &mut Out<N>, v: &T, h: &Hints, fr: Fr) {
    o.structure(false, NOTAG, &[cls(h[0], fu(0, v.0 as u64)), cls(h[1], ou(1, &v.1)), fb(3, v.2)], fr)
}
fn ref_u<const N: usize>(o: &mut Out<N>, _v: &U, _h: &Hints, fr: Fr) {
    o.structure(false, NOTAG, &[], fr)
}
fn ref_tg<const N: usize>(o: &mut Out<N>, v: &TG, h: &Hints, fr: Fr) {
    o.structure(false, 7, &[tagged(300, cls(h[0], fu(0, v.a as u64))), fb(1, v.b)], fr)
}
fn ref_tgm<const N: usize>(o: &mut Out<N>, v: &TGM, h: &Hints, fr: Fr) {
    o.structure(true, 7, &[tagged(300, cls(h[0], ou(1, &v.a))), fb(2, v.b)], fr)
}
fn ref_tr<const N: usize>(o: &mut Out<N>, v: &TR, h: &Hints, fr: Fr) {
    o.head_c(0, v.0 as u64, fr.wide, h[0])
}
fn ref_sk<const N: usize>(o: &mut Out<N>, v: &SK, h: &Hints, fr: Fr) {
    o.structure(false, NOTAG, &[cls(h[0], fu(0, v.a as u64)), fb(1, v.b)], fr)
}
fn ref_e<const N: usize>(o: &mut Out<N>, v: &E, h: &Hints, fr: Fr) {
    match v {
        E::V0 => { o.enum_prefix(NOTAG, false, 0, fr); o.structure(false, NOTAG, &[], fr) }
        E::V1(x, y) => { o.enum_prefix(NOTAG, false, 1, fr); o.structure(false, NOTAG, &[cls(h[0], fu(0, *x as u64)), cls(h[1], ou(1, y))], fr) }
        E::V3 { a, b } => { o.enum_prefix(NOTAG, false, 3, fr); o.structure(false, NOTAG, &[cls(h[0], ou(0, b)), fb(2, *a)], fr) }
        E::V4(x) => { o.enum_prefix(NOTAG, false, 4, fr); o.structure(false, 9, &[fb(0, *x)], fr) }
    }
}
fn ref_em<const N: usize>(o: &mut Out<N>, v: &EM, h: &Hints, fr: Fr) {
    match v {
        EM::V0 => { o.enum_prefix(6, false, 0, fr); o.structure(true, NOTAG, &[], fr) }
        EM::V1 { a, b } => { o.enum_prefix(6, false, 1, fr); o.structure(true, NOTAG, &[cls(h[0], fu(0, *a as u64)), fb(3, *b)], fr) }
        EM::V2(x, y) => { o.enum_prefix(6, false, 2, fr); o.structure(false, NOTAG, &[cls(h[0], fu(0, *x as u64)), fb(1, *y)], fr) }
    }
}
fn ref_eo<const N: usize>(o: &mut Out<N>, v: &EO, h: &Hints, fr: Fr) {
    match v {
        EO::V0 { a, b } => { o.enum_prefix(NOTAG, false, 0, fr); o.structure(true, NOTAG, &[cls(h[0], fu(0, *a as u64)), cls(h[1], ou(1, b))], fr) }
    }
}
fn ref_io<const N: usize>(o: &mut Out<N>, v: &IO, _h: &Hints, fr: Fr) {
    o.enum_prefix(NOTAG, true, match v { IO::I0 => 0, IO::I1 => 1, IO::I30 => 30 }, fr)
}
fn ref_by<const N: usize>(o: &mut Out<N>, v: &BY, h: &Hints, fr: Fr) {
    o.structure(false, NOTAG, &[cls(h[0], fu(0, v.a as u64)), fbytes4(1, v.b)], fr)
}
fn ref_to<const N: usize>(o: &mut Out<N>, v: &TO, h: &Hints, fr: Fr) {
    o.structure(false, NOTAG, &[tagged(5, cls(h[0], ou(0, &v.a))), fb(1, v.b)], fr)
}

// ---------------------------------------------------------------------------------------------------------------------
// C08 + C07, encode side: one harness per definition, all values, all presence combinations
// ---------------------------------------------------------------------------------------------------------------------

// @harness name=enc_arr_gap props=C08,C07 kind=complete
enc_harness!(enc_arr_gap, A, 16, ref_a, |v| true, true, v.b.is_some() && v.a >= 24);
// @harness name=enc_ad props=C08,C07 kind=complete
enc_harness!(enc_ad, AD, 16, ref_ad, |v| true, true, v.b < -24);
// @harness name=enc_ap props=C08,C07 kind=complete note="declaration order, names and n/b do not influence the bytes"
enc_harness!(enc_ap, AP, 16, ref_ap, |v| true, true, v.y < -24);
// @harness name=enc_o1 props=C08,C07 kind=complete
enc_harness!(enc_o1, O1, 16, ref_o1, |v| true, true, v.a.is_none() && v.c.is_none());
// @harness name=enc_map_gaps props=C08,C07 kind=complete
enc_harness!(enc_map_gaps, M, 16, ref_m, |v| true, true, v.b.is_some() && v.c.is_none());
// @harness name=enc_mp props=C08,C07 kind=complete
enc_harness!(enc_mp, MP, 16, ref_mp, |v| true, true, v.b.is_none() && v.c.is_some());
// @harness name=enc_tuple props=C08,C07 kind=complete
enc_harness!(enc_tuple, T, 16, ref_t, |v| true, true, v.1.is_none());
// @harness name=enc_u props=C08,C07 kind=complete
enc_harness!(enc_u, U, 8, ref_u, |v| true, true, true);
// @harness name=enc_tags_arr props=C08,C07 kind=complete
enc_harness!(enc_tags_arr, TG, 16, ref_tg, |v| true, true, v.a >= 24);
// @harness name=enc_tags_map props=C08,C07 kind=complete
enc_harness!(enc_tags_map, TGM, 16, ref_tgm, |v| true, true, v.a.is_none());
// @harness name=enc_tr props=C08,C07 kind=complete
enc_harness!(enc_tr, TR, 8, ref_tr, |v| true, true, v.0 > 255);
// @harness name=enc_sk props=C08,C07 kind=complete
enc_harness!(enc_sk, SK, 16, ref_sk, |v| true, true, v.s != 0);
// @harness name=enc_enum_arr props=C08,C07 kind=complete note="excludes the class of D4 (absent optional field of a variant)"
enc_harness!(enc_enum_arr, E, 16, ref_e, |v| !matches!(v, E::V3 { b: None, .. } | E::V1(_, None)), true, matches!(v, E::V3 { .. }));
// @harness name=enc_e_absent_optional props=C08 kind=complete note="D4: E::V1(x, None) is written as 82 01 82 x f6 (trailing null) instead of 82 01 81 x"
enc_harness!(enc_e_absent_optional, E, 16, ref_e, |v| matches!(v, E::V3 { b: None, .. } | E::V1(_, None)), true, true);
// @harness name=enc_enum_map props=C08,C07 kind=complete
enc_harness!(enc_enum_map, EM, 16, ref_em, |v| true, true, matches!(v, EM::V2(..)));
// @harness name=enc_enum_opt props=C08,C07 kind=complete note="excludes the class of D4 (absent optional field of a map-encoded variant)"
enc_harness!(enc_enum_opt, EO, 16, ref_eo, |v| !matches!(v, EO::V0 { b: None, .. }), true, true);
// @harness name=enc_eo_absent_optional props=C08 kind=complete note="D4: EO::V0 { a, b: None } is written with an explicit `1: null` entry"
enc_harness!(enc_eo_absent_optional, EO, 16, ref_eo, |v| matches!(v, EO::V0 { b: None, .. }), true, true);
// @harness name=enc_io props=C08,C07 kind=complete
enc_harness!(enc_io, IO, 8, ref_io, |v| true, true, matches!(v, IO::I30));
// @harness name=enc_by props=C08,C07 kind=complete
enc_harness!(enc_by, BY, 16, ref_by, |v| true, true, v.a >= 24);
// @harness name=enc_to props=C08,C07 kind=complete note="C07 asserted outside the class of D5 (a == None)"
enc_harness!(enc_to, TO, 16, ref_to, |v| true, v.a.is_some(), v.a.is_none());
// @harness name=enc_to_tagged_nil_len props=C07 kind=complete note="D5: TO { a: None, b }: 4 bytes written (82 c5 f6 f4/f5), cbor_len reports 3"
enc_harness!(enc_to_tagged_nil_len, TO, 16, ref_to, |v| v.a.is_none(), true, true);

// ---- 24-field map struct with optional fields (D5: derived cbor_len sizes the map header from the declared field count) ----
family! {
    #[cbor(map)] pub struct M24 { #[n(0)] f0: bool, #[n(1)] f1: bool, #[n(2)] f2: bool, #[n(3)] f3: bool, #[n(4)] f4: bool, #[n(5)] f5: bool, #[n(6)] f6: bool, #[n(7)] f7: bool, #[n(8)] f8: bool, #[n(9)] f9: bool, #[n(10)] f10: bool, #[n(11)] f11: bool, #[n(12)] f12: bool, #[n(13)] f13: bool, #[n(14)] f14: bool, #[n(15)] f15: bool, #[n(16)] f16: bool, #[n(17)] f17: bool, #[n(18)] f18: bool, #[n(19)] f19: bool, #[n(20)] f20: bool, #[n(21)] f21: bool, #[n(22)] f22: Option<bool>, #[n(24)] f24: Option<bool> }
}
fn ref_m24<const N: usize>(o: &mut Out<N>, v: &M24, _h: &Hints, fr: Fr) {
    o.structure(true, NOTAG, &[fb(0, v.f0), fb(1, v.f1), fb(2, v.f2), fb(3, v.f3), fb(4, v.f4), fb(5, v.f5), fb(6, v.f6), fb(7, v.f7), fb(8, v.f8), fb(9, v.f9), fb(10, v.f10), fb(11, v.f11), fb(12, v.f12), fb(13, v.f13), fb(14, v.f14), fb(15, v.f15), fb(16, v.f16), fb(17, v.f17), fb(18, v.f18), fb(19, v.f19), fb(20, v.f20), fb(21, v.f21), ob(22, &v.f22), ob(24, &v.f24)], fr)
}
/// a sink that only counts (the byte-storing `Cursor` makes the 24-field encoder too expensive for CBMC: > 500 s)
pub struct Count(pub usize);
impl minicbor::encode::Write for Count {
    type Error = core::convert::Infallible;
    fn write_all(&mut self, buf: &[u8]) -> Result<(), Self::Error> { self.0 += buf.len(); Ok(()) }
}
#[cfg(kani)]
fn m24_len(all_present: bool) {
    let v: M24 = kani::any();
    kani::assume((v.f22.is_some() && v.f24.is_some()) == all_present);
    let mut e = Encoder::new(Count(0));
    let ok = v.encode(&mut e, &mut ()).is_ok();
    chk!(ok, "encoding succeeds");
    let n = e.into_writer().0;
    chk!(v.cbor_len(&mut ()) == n, "C07: cbor_len == bytes written");
    kani::cover!(n >= 48);
}
// @harness name=len_m24_all_present props=C07 kind=complete
#[cfg(kani)] #[kani::proof] fn len_m24_all_present() { m24_len(true) }
// @harness name=enc_m24_absent_len props=C07 kind=complete note="D5: M24 with f22 or f24 absent: header a0+n (1 byte) is written, cbor_len counts the 2-byte header of map(24)"
#[cfg(kani)] #[kani::proof] fn enc_m24_absent_len() { m24_len(false) }

// ---------------------------------------------------------------------------------------------------------------------
// C09, decode side: decode(ref_encode(v)) == v, exact consumption.  One harness per (presence mask, width classes);
// the union of the harnesses of a definition covers every value of the type.
// ---------------------------------------------------------------------------------------------------------------------

// @harness name=dec_a_n0 props=C09 kind=complete tier=thorough
dec_harness!(dec_a_n0, A, ref_a, PREF, h2(0, AUTO), |h| A { a: u8c(h[0]), b: None, c: kani::any() });
// @harness name=dec_a_00 props=C09 kind=complete tier=thorough
dec_harness!(dec_a_00, A, ref_a, PREF, h2(0, 0), |h| A { a: u8c(h[0]), b: Some(u16c(h[1])), c: kani::any() });
// @harness name=dec_a_01 props=C09 kind=complete tier=thorough
dec_harness!(dec_a_01, A, ref_a, PREF, h2(0, 1), |h| A { a: u8c(h[0]), b: Some(u16c(h[1])), c: kani::any() });
// @harness name=dec_a_02 props=C09 kind=complete tier=thorough
dec_harness!(dec_a_02, A, ref_a, PREF, h2(0, 2), |h| A { a: u8c(h[0]), b: Some(u16c(h[1])), c: kani::any() });
// @harness name=dec_a_n1 props=C09 kind=complete
dec_harness!(dec_a_n1, A, ref_a, PREF, h2(1, AUTO), |h| A { a: u8c(h[0]), b: None, c: kani::any() });
// @harness name=dec_a_10 props=C09 kind=complete
dec_harness!(dec_a_10, A, ref_a, PREF, h2(1, 0), |h| A { a: u8c(h[0]), b: Some(u16c(h[1])), c: kani::any() });
// @harness name=dec_a_11 props=C09 kind=complete
dec_harness!(dec_a_11, A, ref_a, PREF, h2(1, 1), |h| A { a: u8c(h[0]), b: Some(u16c(h[1])), c: kani::any() });
// @harness name=dec_a_12 props=C09 kind=complete
dec_harness!(dec_a_12, A, ref_a, PREF, h2(1, 2), |h| A { a: u8c(h[0]), b: Some(u16c(h[1])), c: kani::any() });
// @harness name=dec_ad_00 props=C09 kind=complete tier=thorough
dec_harness!(dec_ad_00, AD, ref_ad, PREF, h2(0, 0), |h| AD { a: u8c(h[0]), b: i8c(h[1]), c: kani::any() });
// @harness name=dec_ap_00 props=C09 kind=complete tier=thorough
dec_harness!(dec_ap_00, AP, ref_ap, PREF, h2(0, 0), |h| AP { x: u8c(h[0]), y: i8c(h[1]), z: kani::any() });
// @harness name=dec_ad_01 props=C09 kind=complete tier=thorough
dec_harness!(dec_ad_01, AD, ref_ad, PREF, h2(0, 1), |h| AD { a: u8c(h[0]), b: i8c(h[1]), c: kani::any() });
// @harness name=dec_ap_01 props=C09 kind=complete tier=thorough
dec_harness!(dec_ap_01, AP, ref_ap, PREF, h2(0, 1), |h| AP { x: u8c(h[0]), y: i8c(h[1]), z: kani::any() });
// @harness name=dec_ad_10 props=C09 kind=complete tier=thorough
dec_harness!(dec_ad_10, AD, ref_ad, PREF, h2(1, 0), |h| AD { a: u8c(h[0]), b: i8c(h[1]), c: kani::any() });
// @harness name=dec_ap_10 props=C09 kind=complete tier=thorough
dec_harness!(dec_ap_10, AP, ref_ap, PREF, h2(1, 0), |h| AP { x: u8c(h[0]), y: i8c(h[1]), z: kani::any() });
// @harness name=dec_ad_11 props=C09 kind=complete
dec_harness!(dec_ad_11, AD, ref_ad, PREF, h2(1, 1), |h| AD { a: u8c(h[0]), b: i8c(h[1]), c: kani::any() });
// @harness name=dec_ap_11 props=C09 kind=complete
dec_harness!(dec_ap_11, AP, ref_ap, PREF, h2(1, 1), |h| AP { x: u8c(h[0]), y: i8c(h[1]), z: kani::any() });
// @harness name=dec_mp_0nn props=C09 kind=complete
dec_harness!(dec_mp_0nn, MP, ref_mp, PREF, h3(0, AUTO, AUTO), |h| MP { a: u8c(h[0]), b: None, c: None });
// @harness name=dec_mp_0n0 props=C09 kind=complete tier=thorough
dec_harness!(dec_mp_0n0, MP, ref_mp, PREF, h3(0, AUTO, 0), |h| MP { a: u8c(h[0]), b: None, c: Some(i8c(h[2])) });
// @harness name=dec_mp_00n props=C09 kind=complete tier=thorough
dec_harness!(dec_mp_00n, MP, ref_mp, PREF, h3(0, 0, AUTO), |h| MP { a: u8c(h[0]), b: Some(u16c(h[1])), c: None });
// @harness name=dec_mp_02n props=C09 kind=complete tier=thorough
dec_harness!(dec_mp_02n, MP, ref_mp, PREF, h3(0, 2, AUTO), |h| MP { a: u8c(h[0]), b: Some(u16c(h[1])), c: None });
// @harness name=dec_mp_1nn props=C09 kind=complete
dec_harness!(dec_mp_1nn, MP, ref_mp, PREF, h3(1, AUTO, AUTO), |h| MP { a: u8c(h[0]), b: None, c: None });
// @harness name=dec_mp_1n0 props=C09 kind=complete tier=thorough
dec_harness!(dec_mp_1n0, MP, ref_mp, PREF, h3(1, AUTO, 0), |h| MP { a: u8c(h[0]), b: None, c: Some(i8c(h[2])) });
// @harness name=dec_mp_1n1 props=C09 kind=complete tier=thorough
dec_harness!(dec_mp_1n1, MP, ref_mp, PREF, h3(1, AUTO, 1), |h| MP { a: u8c(h[0]), b: None, c: Some(i8c(h[2])) });
// @harness name=dec_mp_10n props=C09 kind=complete
dec_harness!(dec_mp_10n, MP, ref_mp, PREF, h3(1, 0, AUTO), |h| MP { a: u8c(h[0]), b: Some(u16c(h[1])), c: None });
// @harness name=dec_mp_100 props=C09 kind=complete tier=thorough
dec_harness!(dec_mp_100, MP, ref_mp, PREF, h3(1, 0, 0), |h| MP { a: u8c(h[0]), b: Some(u16c(h[1])), c: Some(i8c(h[2])) });
// @harness name=dec_mp_101 props=C09 kind=complete tier=thorough
dec_harness!(dec_mp_101, MP, ref_mp, PREF, h3(1, 0, 1), |h| MP { a: u8c(h[0]), b: Some(u16c(h[1])), c: Some(i8c(h[2])) });
// @harness name=dec_mp_11n props=C09 kind=complete
dec_harness!(dec_mp_11n, MP, ref_mp, PREF, h3(1, 1, AUTO), |h| MP { a: u8c(h[0]), b: Some(u16c(h[1])), c: None });
// @harness name=dec_mp_110 props=C09 kind=complete tier=thorough
dec_harness!(dec_mp_110, MP, ref_mp, PREF, h3(1, 1, 0), |h| MP { a: u8c(h[0]), b: Some(u16c(h[1])), c: Some(i8c(h[2])) });
// @harness name=dec_mp_111 props=C09 kind=complete
dec_harness!(dec_mp_111, MP, ref_mp, PREF, h3(1, 1, 1), |h| MP { a: u8c(h[0]), b: Some(u16c(h[1])), c: Some(i8c(h[2])) });
// @harness name=dec_mp_12n props=C09 kind=complete
dec_harness!(dec_mp_12n, MP, ref_mp, PREF, h3(1, 2, AUTO), |h| MP { a: u8c(h[0]), b: Some(u16c(h[1])), c: None });
// @harness name=dec_mp_120 props=C09 kind=complete tier=thorough
dec_harness!(dec_mp_120, MP, ref_mp, PREF, h3(1, 2, 0), |h| MP { a: u8c(h[0]), b: Some(u16c(h[1])), c: Some(i8c(h[2])) });
// @harness name=dec_mp_121 props=C09 kind=complete tier=thorough
dec_harness!(dec_mp_121, MP, ref_mp, PREF, h3(1, 2, 1), |h| MP { a: u8c(h[0]), b: Some(u16c(h[1])), c: Some(i8c(h[2])) });
// @harness name=dec_t_0n props=C09 kind=complete tier=thorough
dec_harness!(dec_t_0n, T, ref_t, PREF, h2(0, AUTO), |h| T(u8c(h[0]), None, kani::any()));
// @harness name=dec_t_00 props=C09 kind=complete tier=thorough
dec_harness!(dec_t_00, T, ref_t, PREF, h2(0, 0), |h| T(u8c(h[0]), Some(u8c(h[1])), kani::any()));
// @harness name=dec_t_01 props=C09 kind=complete tier=thorough
dec_harness!(dec_t_01, T, ref_t, PREF, h2(0, 1), |h| T(u8c(h[0]), Some(u8c(h[1])), kani::any()));
// @harness name=dec_t_1n props=C09 kind=complete
dec_harness!(dec_t_1n, T, ref_t, PREF, h2(1, AUTO), |h| T(u8c(h[0]), None, kani::any()));
// @harness name=dec_t_10 props=C09 kind=complete
dec_harness!(dec_t_10, T, ref_t, PREF, h2(1, 0), |h| T(u8c(h[0]), Some(u8c(h[1])), kani::any()));
// @harness name=dec_t_11 props=C09 kind=complete
dec_harness!(dec_t_11, T, ref_t, PREF, h2(1, 1), |h| T(u8c(h[0]), Some(u8c(h[1])), kani::any()));
// @harness name=dec_u props=C09 kind=complete
dec_harness!(dec_u, U, ref_u, PREF, NOH, |h| U);
// @harness name=dec_tg_0 props=C09 kind=complete
dec_harness!(dec_tg_0, TG, ref_tg, PREF, h1(0), |h| TG { a: u8c(h[0]), b: kani::any() });
// @harness name=dec_tg_1 props=C09 kind=complete
dec_harness!(dec_tg_1, TG, ref_tg, PREF, h1(1), |h| TG { a: u8c(h[0]), b: kani::any() });
// @harness name=dec_tgm_n props=C09 kind=complete
dec_harness!(dec_tgm_n, TGM, ref_tgm, PREF, h1(AUTO), |h| TGM { a: None, b: kani::any() });
// @harness name=dec_tgm_0 props=C09 kind=complete tier=thorough
dec_harness!(dec_tgm_0, TGM, ref_tgm, PREF, h1(0), |h| TGM { a: Some(u8c(h[0])), b: kani::any() });
// @harness name=dec_tgm_1 props=C09 kind=complete
dec_harness!(dec_tgm_1, TGM, ref_tgm, PREF, h1(1), |h| TGM { a: Some(u8c(h[0])), b: kani::any() });
// @harness name=dec_tr_0 props=C09 kind=complete
dec_harness!(dec_tr_0, TR, ref_tr, PREF, h1(0), |h| TR(u16c(h[0])));
// @harness name=dec_tr_1 props=C09 kind=complete
dec_harness!(dec_tr_1, TR, ref_tr, PREF, h1(1), |h| TR(u16c(h[0])));
// @harness name=dec_tr_2 props=C09 kind=complete
dec_harness!(dec_tr_2, TR, ref_tr, PREF, h1(2), |h| TR(u16c(h[0])));
// @harness name=dec_sk_0 props=C09 kind=complete note="the skipped field takes its default"
dec_harness!(dec_sk_0, skip0, SK => SK, 24, ref_sk, PREF, h1(0), |h| SK { a: u8c(h[0]), s: kani::any(), b: kani::any() }, |v| SK { s: 0, ..v });
// @harness name=dec_sk_1 props=C09 kind=complete note="the skipped field takes its default"
dec_harness!(dec_sk_1, skip0, SK => SK, 24, ref_sk, PREF, h1(1), |h| SK { a: u8c(h[0]), s: kani::any(), b: kani::any() }, |v| SK { s: 0, ..v });
// @harness name=dec_e_v0 props=C09 kind=complete
dec_harness!(dec_e_v0, skip1, E => E, 24, ref_e, PREF, NOH, |h| E::V0, |v| v);
// @harness name=dec_e_v1_0n props=C09 kind=complete
dec_harness!(dec_e_v1_0n, E, ref_e, PREF, h2(0, AUTO), |h| E::V1(u8c(h[0]), None));
// @harness name=dec_e_v1_00 props=C09 kind=complete tier=thorough
dec_harness!(dec_e_v1_00, E, ref_e, PREF, h2(0, 0), |h| E::V1(u8c(h[0]), Some(u8c(h[1]))));
// @harness name=dec_e_v1_01 props=C09 kind=complete tier=thorough
dec_harness!(dec_e_v1_01, E, ref_e, PREF, h2(0, 1), |h| E::V1(u8c(h[0]), Some(u8c(h[1]))));
// @harness name=dec_e_v1_1n props=C09 kind=complete
dec_harness!(dec_e_v1_1n, E, ref_e, PREF, h2(1, AUTO), |h| E::V1(u8c(h[0]), None));
// @harness name=dec_e_v1_10 props=C09 kind=complete
dec_harness!(dec_e_v1_10, E, ref_e, PREF, h2(1, 0), |h| E::V1(u8c(h[0]), Some(u8c(h[1]))));
// @harness name=dec_e_v1_11 props=C09 kind=complete
dec_harness!(dec_e_v1_11, E, ref_e, PREF, h2(1, 1), |h| E::V1(u8c(h[0]), Some(u8c(h[1]))));
// @harness name=dec_e_v4 props=C09 kind=complete
dec_harness!(dec_e_v4, E, ref_e, PREF, NOH, |h| E::V4(kani::any()));
// @harness name=dec_em_v0 props=C09 kind=complete
dec_harness!(dec_em_v0, skip1, EM => EM, 24, ref_em, PREF, NOH, |h| EM::V0, |v| v);
// @harness name=dec_em_v1_0 props=C09 kind=complete tier=thorough
dec_harness!(dec_em_v1_0, EM, ref_em, PREF, h1(0), |h| EM::V1 { a: u8c(h[0]), b: kani::any() });
// @harness name=dec_em_v2_0 props=C09 kind=complete
dec_harness!(dec_em_v2_0, EM, ref_em, PREF, h1(0), |h| EM::V2(u8c(h[0]), kani::any()));
// @harness name=dec_em_v1_1 props=C09 kind=complete
dec_harness!(dec_em_v1_1, EM, ref_em, PREF, h1(1), |h| EM::V1 { a: u8c(h[0]), b: kani::any() });
// @harness name=dec_em_v2_1 props=C09 kind=complete
dec_harness!(dec_em_v2_1, EM, ref_em, PREF, h1(1), |h| EM::V2(u8c(h[0]), kani::any()));
// @harness name=dec_eo_0n props=C09 kind=complete
dec_harness!(dec_eo_0n, EO, ref_eo, PREF, h2(0, AUTO), |h| EO::V0 { a: u8c(h[0]), b: None });
// @harness name=dec_eo_00 props=C09 kind=complete tier=thorough
dec_harness!(dec_eo_00, EO, ref_eo, PREF, h2(0, 0), |h| EO::V0 { a: u8c(h[0]), b: Some(u8c(h[1])) });
// @harness name=dec_eo_01 props=C09 kind=complete tier=thorough
dec_harness!(dec_eo_01, EO, ref_eo, PREF, h2(0, 1), |h| EO::V0 { a: u8c(h[0]), b: Some(u8c(h[1])) });
// @harness name=dec_eo_1n props=C09 kind=complete
dec_harness!(dec_eo_1n, EO, ref_eo, PREF, h2(1, AUTO), |h| EO::V0 { a: u8c(h[0]), b: None });
// @harness name=dec_eo_10 props=C09 kind=complete
dec_harness!(dec_eo_10, EO, ref_eo, PREF, h2(1, 0), |h| EO::V0 { a: u8c(h[0]), b: Some(u8c(h[1])) });
// @harness name=dec_eo_11 props=C09 kind=complete
dec_harness!(dec_eo_11, EO, ref_eo, PREF, h2(1, 1), |h| EO::V0 { a: u8c(h[0]), b: Some(u8c(h[1])) });
// @harness name=dec_io_i0 props=C09 kind=complete
dec_harness!(dec_io_i0, IO, ref_io, PREF, NOH, |h| IO::I0);
// @harness name=dec_io_i1 props=C09 kind=complete
dec_harness!(dec_io_i1, IO, ref_io, PREF, NOH, |h| IO::I1);
// @harness name=dec_io_i30 props=C09 kind=complete
dec_harness!(dec_io_i30, IO, ref_io, PREF, NOH, |h| IO::I30);
// @harness name=dec_by_0 props=C09 kind=complete tier=thorough
dec_harness!(dec_by_0, BY, ref_by, PREF, h1(0), |h| BY { a: u8c(h[0]), b: kani::any() });
// @harness name=dec_by_1 props=C09 kind=complete
dec_harness!(dec_by_1, BY, ref_by, PREF, h1(1), |h| BY { a: u8c(h[0]), b: kani::any() });
// @harness name=dec_to_n props=C09 kind=complete
dec_harness!(dec_to_n, TO, ref_to, PREF, h1(AUTO), |h| TO { a: None, b: kani::any() });
// @harness name=dec_to_0 props=C09 kind=complete
dec_harness!(dec_to_0, TO, ref_to, PREF, h1(0), |h| TO { a: Some(u8c(h[0])), b: kani::any() });
// @harness name=dec_to_1 props=C09 kind=complete
dec_harness!(dec_to_1, TO, ref_to, PREF, h1(1), |h| TO { a: Some(u8c(h[0])), b: kani::any() });

// ---------------------------------------------------------------------------------------------------------------------
// C09, re-framed inputs: the same value in another well-formed framing (indefinite-length field container, heads wider
// than preferred) decodes to the same value.  With WIDE1 every class-0 leaf becomes `18 xx`, i.e. these harnesses cover
// the class-0 values a second time with a concrete initial byte.
// ---------------------------------------------------------------------------------------------------------------------

// @harness name=rf_a_indef_1n props=C09 kind=complete
dec_harness!(rf_a_indef_1n, A, ref_a, INDEF, h2(1, AUTO), |h| A { a: u8c(h[0]), b: None, c: kani::any() });
// @harness name=rf_a_indef_12 props=C09 kind=complete
dec_harness!(rf_a_indef_12, A, ref_a, INDEF, h2(1, 2), |h| A { a: u8c(h[0]), b: Some(u16c(h[1])), c: kani::any() });
// @harness name=rf_a_wide1_00 props=C09 kind=complete
dec_harness!(rf_a_wide1_00, A, ref_a, WIDE1, h2(0, 0), |h| A { a: u8c(h[0]), b: Some(u16c(h[1])), c: kani::any() });
// @harness name=rf_a_wide1_0n props=C09 kind=complete
dec_harness!(rf_a_wide1_0n, A, ref_a, WIDE1, h2(0, AUTO), |h| A { a: u8c(h[0]), b: None, c: kani::any() });
// @harness name=rf_a_wide2_11 props=C09 kind=complete
dec_harness!(rf_a_wide2_11, A, ref_a, WIDE2, h2(1, 1), |h| A { a: u8c(h[0]), b: Some(u16c(h[1])), c: kani::any() });
// @harness name=rf_a_wide4_12 props=C09 kind=complete tier=thorough
dec_harness!(rf_a_wide4_12, skip0, A => A, 40, ref_a, WIDE4, h2(1, 2), |h| A { a: u8c(h[0]), b: Some(u16c(h[1])), c: kani::any() }, |v| v);
// @harness name=rf_mp_indef_11n props=C09 kind=complete
dec_harness!(rf_mp_indef_11n, MP, ref_mp, INDEF, h3(1, 1, AUTO), |h| MP { a: u8c(h[0]), b: Some(u16c(h[1])), c: None });
// @harness name=rf_mp_wide1_000 props=C09 kind=complete
dec_harness!(rf_mp_wide1_000, skip0, MP => MP, 32, ref_mp, WIDE1, h3(0, 0, 0), |h| MP { a: u8c(h[0]), b: Some(u16c(h[1])), c: Some(i8c(h[2])) }, |v| v);
// @harness name=rf_e_v1_indef props=C09 kind=complete
dec_harness!(rf_e_v1_indef, E, ref_e, INDEF, h2(1, 1), |h| E::V1(u8c(h[0]), Some(u8c(h[1]))));
// @harness name=rf_e_v0_indef props=C09 kind=complete note="the unit variant's (empty, indefinite) body is skipped"
dec_harness!(rf_e_v0_indef, skip1, E => E, 24, ref_e, WIDE1, NOH, |h| E::V0, |v| v);
// @harness name=rf_em_v1_indef props=C09 kind=complete
dec_harness!(rf_em_v1_indef, EM, ref_em, INDEF, h1(1), |h| EM::V1 { a: u8c(h[0]), b: kani::any() });
// @harness name=rf_tg_wide1_0 props=C09 kind=complete
dec_harness!(rf_tg_wide1_0, TG, ref_tg, WIDE1, h1(0), |h| TG { a: u8c(h[0]), b: kani::any() });
// @harness name=rf_io_wide2 props=C09 kind=complete
dec_harness!(rf_io_wide2, IO, ref_io, WIDE2, NOH, |h| IO::I1);
// @harness name=rf_by_wide1_0 props=C09 kind=complete
dec_harness!(rf_by_wide1_0, BY, ref_by, WIDE1, h1(0), |h| BY { a: u8c(h[0]), b: kani::any() });

// ---------------------------------------------------------------------------------------------------------------------
// C09, errors: wrong / missing tag, missing mandatory field, unknown top-level variant are errors of the right class
// ---------------------------------------------------------------------------------------------------------------------

#[cfg(kani)] fn bb(x: bool) -> u8 { if x { 0xf5 } else { 0xf4 } }
#[cfg(kani)] fn not7() -> u8 { let t: u8 = kani::any(); kani::assume(t < 24 && t != 7); t }
#[cfg(kani)] fn ge24() -> u8 { let t: u8 = kani::any(); kani::assume(t >= 24); t }

// @harness name=err_tg_wrong_struct_tag props=C09 kind=complete
err_harness!(err_tg_wrong_struct_tag, TG, 9, [0xd8, { let t: u8 = kani::any(); kani::assume(t != 7); t }, 0x82, 0xd9, 0x01, 0x2c, 0x18, kani::any(), bb(kani::any())], |e| e.is_tag_mismatch());
// @harness name=err_tg_wrong_field_tag props=C09 kind=complete
err_harness!(err_tg_wrong_field_tag, TG, 8, [0xc7, 0x82, 0xd9, 0x01, { let t: u8 = kani::any(); kani::assume(t != 0x2c); t }, 0x18, kani::any(), bb(kani::any())], |e| e.is_tag_mismatch());
// @harness name=err_tg_missing_field_tag props=C09 kind=complete
err_harness!(err_tg_missing_field_tag, TG, 5, [0xc7, 0x82, 0x18, kani::any(), bb(kani::any())], |e| e.is_type_mismatch());
// @harness name=err_a_missing_all props=C09,C10 kind=complete
err_harness!(err_a_missing_all, A, 1, [0x80], |e| e.is_missing_value());
// @harness name=err_a_missing_last props=C09,C10 kind=complete
err_harness!(err_a_missing_last, A, 5, [0x83, 0x18, kani::any(), 0xf6, 0xf6], |e| e.is_missing_value());
// @harness name=err_mp_missing_first props=C09,C10 kind=complete
err_harness!(err_mp_missing_first, MP, 4, [0xa1, 0x02, 0x18, kani::any()], |e| e.is_missing_value());
// @harness name=err_e_unknown_variant_2 props=C09 kind=complete
err_harness!(err_e_unknown_variant_2, E, 3, [0x82, 0x02, 0x80], |e| e.is_unknown_variant());
// @harness name=err_e_unknown_variant_ge24 props=C09 kind=complete tier=thorough
err_harness!(err_e_unknown_variant_ge24, E, 4, [0x82, 0x18, ge24(), 0x80], |e| e.is_unknown_variant());
// @harness name=err_io_unknown_variant props=C09 kind=complete
err_harness!(err_io_unknown_variant, IO, 2, [0x18, { let t = ge24(); kani::assume(t != 30); t }], |e| e.is_unknown_variant());

// ---------------------------------------------------------------------------------------------------------------------
// C10: pairs (writer version, reader version) related by documented-compatible edits
// ---------------------------------------------------------------------------------------------------------------------

family! {
    // A without the optional field at gap index 2 (older), and with one more optional field at a new index (newer)
    pub struct A0 { #[n(0)] a: u8, #[n(3)] c: bool }
    pub struct A2 { #[n(0)] a: u8, #[n(2)] b: Option<u16>, #[n(3)] c: bool, #[n(4)] d: Option<u8> }
    // the same for map encoding
    #[cbor(map)] pub struct MP0 { #[n(0)] a: u8, #[n(5)] c: Option<i8> }
    #[cbor(map)] pub struct MP2 { #[n(0)] a: u8, #[n(2)] b: Option<u16>, #[n(5)] c: Option<i8>, #[n(7)] d: Option<u8> }
    // an enum used as optional field, and its successor with one more variant
    pub enum EV { #[n(0)] V0, #[n(1)] V1(#[n(0)] u8) }
    pub enum EV2 { #[n(0)] V0, #[n(1)] V1(#[n(0)] u8), #[n(7)] V7(#[n(0)] u8) }
    pub struct HE { #[n(0)] e: Option<EV>, #[n(1)] z: u8 }
    pub struct HE2 { #[n(0)] e: Option<EV2>, #[n(1)] z: u8 }
    // the same with index_only enums (D6)
    #[cbor(index_only)] pub enum IX { #[n(0)] I0, #[n(1)] I1 }
    #[cbor(index_only)] pub enum IX2 { #[n(0)] I0, #[n(1)] I1, #[n(7)] I7 }
    pub struct HI { #[n(0)] e: Option<IX>, #[n(1)] z: u8 }
    pub struct HI2 { #[n(0)] e: Option<IX2>, #[n(1)] z: u8 }
    // unit variant turned into a struct variant with only optional fields
    pub enum EU { #[n(0)] V0, #[n(1)] V1(#[n(0)] u8) }
    pub enum EU2 { #[n(0)] V0 { #[n(0)] x: Option<u8> }, #[n(1)] V1(#[n(0)] u8) }
    // tagged optional field added at a gap index (D7)
    pub struct AT0 { #[n(0)] a: u8, #[n(2)] c: bool }
    pub struct AT { #[n(0)] a: u8, #[cbor(n(1), tag(5))] t: Option<u8>, #[n(2)] c: bool }
}

fn ref_a0<const N: usize>(o: &mut Out<N>, v: &A0, h: &Hints, fr: Fr) {
    o.structure(false, NOTAG, &[cls(h[0], fu(0, v.a as u64)), fb(3, v.c)], fr)
}
fn ref_a2<const N: usize>(o: &mut Out<N>, v: &A2, h: &Hints, fr: Fr) {
    o.structure(false, NOTAG, &[cls(h[0], fu(0, v.a as u64)), cls(h[1], ou(2, &v.b)), fb(3, v.c), cls(h[2], ou(4, &v.d))], fr)
}
fn ref_mp0<const N: usize>(o: &mut Out<N>, v: &MP0, h: &Hints, fr: Fr) {
    o.structure(true, NOTAG, &[cls(h[0], fu(0, v.a as u64)), cls(h[2], oi(5, &v.c))], fr)
}
fn ref_mp2<const N: usize>(o: &mut Out<N>, v: &MP2, h: &Hints, fr: Fr) {
    o.structure(true, NOTAG, &[cls(h[0], fu(0, v.a as u64)), cls(h[1], ou(2, &v.b)), cls(h[2], oi(5, &v.c)), cls(h[3], ou(7, &v.d))], fr)
}
fn ref_ev2<const N: usize>(o: &mut Out<N>, v: &EV2, h: &Hints, fr: Fr) {
    match v {
        EV2::V0 => { o.enum_prefix(NOTAG, false, 0, fr); o.structure(false, NOTAG, &[], fr) }
        EV2::V1(x) => { o.enum_prefix(NOTAG, false, 1, fr); o.structure(false, NOTAG, &[cls(h[0], fu(0, *x as u64))], fr) }
        EV2::V7(x) => { o.enum_prefix(NOTAG, false, 7, fr); o.structure(false, NOTAG, &[cls(h[0], fu(0, *x as u64))], fr) }
    }
}
fn ref_he2<const N: usize>(o: &mut Out<N>, v: &HE2, h: &Hints, fr: Fr) {
    let mut inner = Out::<RAW>::new();
    let e = match &v.e { Some(e) => { ref_ev2(&mut inner, e, h, fr); fnested(0) } None => absent(0) };
    o.structure_n(false, NOTAG, &[e, cls(h[1], fu(1, v.z as u64))], &inner, fr)
}
fn ref_hi2<const N: usize>(o: &mut Out<N>, v: &HI2, h: &Hints, fr: Fr) {
    let e = match &v.e { Some(IX2::I0) => fu(0, 0), Some(IX2::I1) => fu(0, 1), Some(IX2::I7) => fu(0, 7), None => absent(0) };
    o.structure(false, NOTAG, &[e, cls(h[1], fu(1, v.z as u64))], fr)
}
fn ref_eu<const N: usize>(o: &mut Out<N>, v: &EU, h: &Hints, fr: Fr) {
    match v {
        EU::V0 => { o.enum_prefix(NOTAG, false, 0, fr); o.structure(false, NOTAG, &[], fr) }
        EU::V1(x) => { o.enum_prefix(NOTAG, false, 1, fr); o.structure(false, NOTAG, &[cls(h[0], fu(0, *x as u64))], fr) }
    }
}
fn ref_eu2<const N: usize>(o: &mut Out<N>, v: &EU2, h: &Hints, fr: Fr) {
    match v {
        EU2::V0 { x } => { o.enum_prefix(NOTAG, false, 0, fr); o.structure(false, NOTAG, &[cls(h[0], ou(0, x))], fr) }
        EU2::V1(x) => { o.enum_prefix(NOTAG, false, 1, fr); o.structure(false, NOTAG, &[cls(h[0], fu(0, *x as u64))], fr) }
    }
}
fn ref_at0<const N: usize>(o: &mut Out<N>, v: &AT0, h: &Hints, fr: Fr) {
    o.structure(false, NOTAG, &[cls(h[0], fu(0, v.a as u64)), fb(2, v.c)], fr)
}
fn ref_at<const N: usize>(o: &mut Out<N>, v: &AT, h: &Hints, fr: Fr) {
    o.structure(false, NOTAG, &[cls(h[0], fu(0, v.a as u64)), tagged(5, cls(h[1], ou(1, &v.t))), fb(2, v.c)], fr)
}

// -- optional field added / dropped at a gap index and at a new index, array encoding
// @harness name=c10_a0_to_a_c1 props=C10 kind=complete note="older writer, newer reader: the optional field at the gap index is None"
dec_harness!(c10_a0_to_a_c1, skip0, A0 => A, 24, ref_a0, PREF, h1(1), |h| A0 { a: u8c(h[0]), c: kani::any() }, |v| A { a: v.a, b: None, c: v.c });
// @harness name=c10_a0_to_a_c0 props=C10 kind=complete tier=thorough
dec_harness!(c10_a0_to_a_c0, skip0, A0 => A, 24, ref_a0, PREF, h1(0), |h| A0 { a: u8c(h[0]), c: kani::any() }, |v| A { a: v.a, b: None, c: v.c });
// @harness name=c10_a_to_a0_some_c1 props=C10 kind=complete note="newer writer, older reader: the unknown field at the gap index is skipped whatever its content"
dec_harness!(c10_a_to_a0_some_c1, skip0, A => A0, 24, ref_a, PREF, h2(1, 2), |h| A { a: u8c(h[0]), b: Some(u16c(h[1])), c: kani::any() }, |v| A0 { a: v.a, c: v.c });
// @harness name=c10_a_to_a0_some_c0 props=C10 kind=complete
dec_harness!(c10_a_to_a0_some_c0, skip0, A => A0, 24, ref_a, PREF, h2(0, 0), |h| A { a: u8c(h[0]), b: Some(u16c(h[1])), c: kani::any() }, |v| A0 { a: v.a, c: v.c });
// @harness name=c10_a_to_a0_none props=C10 kind=complete
dec_harness!(c10_a_to_a0_none, skip0, A => A0, 24, ref_a, PREF, h2(1, AUTO), |h| A { a: u8c(h[0]), b: None, c: kani::any() }, |v| A0 { a: v.a, c: v.c });
// @harness name=c10_a_to_a2 props=C10 kind=complete
dec_harness!(c10_a_to_a2, skip0, A => A2, 24, ref_a, PREF, h2(1, 1), |h| A { a: u8c(h[0]), b: Some(u16c(h[1])), c: kani::any() }, |v| A2 { a: v.a, b: v.b, c: v.c, d: None });
// @harness name=c10_a2_to_a_some_c1 props=C10 kind=complete note="trailing unknown field skipped"
dec_harness!(c10_a2_to_a_some_c1, skip0, A2 => A, 24, ref_a2, PREF, h3(1, 1, 1), |h| A2 { a: u8c(h[0]), b: Some(u16c(h[1])), c: kani::any(), d: Some(u8c(h[2])) }, |v| A { a: v.a, b: v.b, c: v.c });
// @harness name=c10_a2_to_a_some_c0 props=C10 kind=complete
dec_harness!(c10_a2_to_a_some_c0, skip0, A2 => A, 24, ref_a2, PREF, h3(1, AUTO, 0), |h| A2 { a: u8c(h[0]), b: None, c: kani::any(), d: Some(u8c(h[2])) }, |v| A { a: v.a, b: v.b, c: v.c });
// @harness name=c10_a2_to_a0 props=C10 kind=complete note="two versions apart: one unknown field at a gap, one trailing"
dec_harness!(c10_a2_to_a0, skip0, A2 => A0, 24, ref_a2, PREF, h3(1, 2, 1), |h| A2 { a: u8c(h[0]), b: Some(u16c(h[1])), c: kani::any(), d: Some(u8c(h[2])) }, |v| A0 { a: v.a, c: v.c });
// -- the same, map encoding
// @harness name=c10_mp0_to_mp props=C10 kind=complete
dec_harness!(c10_mp0_to_mp, skip0, MP0 => MP, 24, ref_mp0, PREF, h3(1, AUTO, 1), |h| MP0 { a: u8c(h[0]), c: Some(i8c(h[2])) }, |v| MP { a: v.a, b: None, c: v.c });
// @harness name=c10_mp_to_mp0_c1 props=C10 kind=complete tier=thorough
dec_harness!(c10_mp_to_mp0_c1, skip0, MP => MP0, 24, ref_mp, PREF, h3(1, 2, 1), |h| MP { a: u8c(h[0]), b: Some(u16c(h[1])), c: Some(i8c(h[2])) }, |v| MP0 { a: v.a, c: v.c });
// @harness name=c10_mp_to_mp0_c0 props=C10 kind=complete
dec_harness!(c10_mp_to_mp0_c0, skip0, MP => MP0, 24, ref_mp, PREF, h3(1, 0, AUTO), |h| MP { a: u8c(h[0]), b: Some(u16c(h[1])), c: None }, |v| MP0 { a: v.a, c: v.c });
// @harness name=c10_mp_to_mp2 props=C10 kind=complete
dec_harness!(c10_mp_to_mp2, skip0, MP => MP2, 24, ref_mp, PREF, h3(1, 1, AUTO), |h| MP { a: u8c(h[0]), b: Some(u16c(h[1])), c: None }, |v| MP2 { a: v.a, b: v.b, c: v.c, d: None });
// @harness name=c10_mp2_to_mp1 props=C10 kind=complete tier=thorough
dec_harness!(c10_mp2_to_mp1, skip0, MP2 => MP, 24, ref_mp2, PREF, [1, AUTO, 1, 1, AUTO, AUTO, AUTO, AUTO], |h| MP2 { a: u8c(h[0]), b: None, c: Some(i8c(h[2])), d: Some(u8c(h[3])) }, |v| MP { a: v.a, b: v.b, c: v.c });
// @harness name=c10_mp2_to_mp0 props=C10 kind=complete
dec_harness!(c10_mp2_to_mp0, skip0, MP2 => MP0, 24, ref_mp2, PREF, [1, 2, AUTO, 1, AUTO, AUTO, AUTO, AUTO], |h| MP2 { a: u8c(h[0]), b: Some(u16c(h[1])), c: None, d: Some(u8c(h[3])) }, |v| MP0 { a: v.a, c: v.c });
// -- a variant added to an enum that is used as an optional field
// @harness name=c10_he2_to_he_unknown_c1 props=C10 kind=complete note="unknown variant in an optional field -> None, the sibling field is intact"
dec_harness!(c10_he2_to_he_unknown_c1, skip1, HE2 => HE, 24, ref_he2, PREF, h2(1, 1), |h| HE2 { e: Some(EV2::V7(u8c(h[0]))), z: u8c(h[1]) }, |v| HE { e: None, z: v.z });
// @harness name=c10_he2_to_he_unknown_c0 props=C10 kind=complete
dec_harness!(c10_he2_to_he_unknown_c0, skip1, HE2 => HE, 24, ref_he2, PREF, h2(0, 0), |h| HE2 { e: Some(EV2::V7(u8c(h[0]))), z: u8c(h[1]) }, |v| HE { e: None, z: v.z });
// @harness name=c10_he2_to_he_known props=C10 kind=complete
dec_harness!(c10_he2_to_he_known, skip1, HE2 => HE, 24, ref_he2, PREF, h2(1, 1), |h| HE2 { e: Some(EV2::V1(u8c(h[0]))), z: u8c(h[1]) }, |v| HE { e: Some(EV::V1(match v.e { Some(EV2::V1(x)) => x, _ => 0 })), z: v.z });
// @harness name=c10_he2_to_he_none props=C10 kind=complete
dec_harness!(c10_he2_to_he_none, skip1, HE2 => HE, 24, ref_he2, PREF, h2(AUTO, 1), |h| HE2 { e: None, z: u8c(h[1]) }, |v| HE { e: None, z: v.z });
// -- the same with index_only enums
// @harness name=c10_hi2_to_hi_known props=C10 kind=complete
dec_harness!(c10_hi2_to_hi_known, skip0, HI2 => HI, 24, ref_hi2, PREF, h2(AUTO, 1), |h| HI2 { e: Some(IX2::I1), z: u8c(h[1]) }, |v| HI { e: Some(IX::I1), z: v.z });
// @harness name=kf_d6_index_only_unknown props=C10 kind=complete note="D6: HI2 { e: Some(I7), z } = 82 07 z read as HI: the unknown index is followed by skip(), which consumes z"
dec_harness!(kf_d6_index_only_unknown, skip0, HI2 => HI, 24, ref_hi2, PREF, h2(AUTO, 1), |h| HI2 { e: Some(IX2::I7), z: u8c(h[1]) }, |v| HI { e: None, z: v.z });
// -- unit variant -> struct variant with only optional fields
// @harness name=c10_eu_to_eu2 props=C10 kind=complete
dec_harness!(c10_eu_to_eu2, skip1, EU => EU2, 24, ref_eu, PREF, NOH, |h| EU::V0, |v| EU2::V0 { x: None });
// @harness name=c10_eu2_to_eu_some_c1 props=C10 kind=complete note="the older reader skips the body of what it knows as a unit variant"
dec_harness!(c10_eu2_to_eu_some_c1, skip1, EU2 => EU, 24, ref_eu2, PREF, h1(1), |h| EU2::V0 { x: Some(u8c(h[0])) }, |v| EU::V0);
// @harness name=c10_eu2_to_eu_some_c0 props=C10 kind=complete
dec_harness!(c10_eu2_to_eu_some_c0, skip1, EU2 => EU, 24, ref_eu2, PREF, h1(0), |h| EU2::V0 { x: Some(u8c(h[0])) }, |v| EU::V0);
// @harness name=c10_eu2_to_eu_none props=C10 kind=complete
dec_harness!(c10_eu2_to_eu_none, skip1, EU2 => EU, 24, ref_eu2, PREF, NOH, |h| EU2::V0 { x: None }, |v| EU::V0);
// -- tagged optional field added at a gap index
// @harness name=c10_at_to_at0 props=C10 kind=complete note="older reader skips the tagged item"
dec_harness!(c10_at_to_at0, skip1, AT => AT0, 24, ref_at, PREF, h2(1, 1), |h| AT { a: u8c(h[0]), t: Some(u8c(h[1])), c: kani::any() }, |v| AT0 { a: v.a, c: v.c });
// @harness name=c10_at_self props=C09 kind=complete
dec_harness!(c10_at_self, skip1, AT => AT, 24, ref_at, PREF, h2(1, AUTO), |h| AT { a: u8c(h[0]), t: None, c: kani::any() }, |v| v);
// @harness name=kf_d7_tagged_optional_gap props=C10 kind=complete note="D7: AT0 { a, c } = 83 a f6 c read as AT: the null at the gap index is rejected because the tag is demanded first"
dec_harness!(kf_d7_tagged_optional_gap, skip1, AT0 => AT, 24, ref_at0, PREF, h1(1), |h| AT0 { a: u8c(h[0]), c: kani::any() }, |v| AT { a: v.a, t: None, c: v.c });

/// a sink storing by plain indexed stores
pub struct Store<const N: usize> { pub b: [u8; N], pub n: usize }
impl<const N: usize> minicbor::encode::Write for Store<N> {
    type Error = core::convert::Infallible;
    fn write_all(&mut self, buf: &[u8]) -> Result<(), Self::Error> {
        let mut i = 0;
        while i < buf.len() { self.b[self.n] = buf[i]; self.n += 1; i += 1 }
        Ok(())
    }
}
// @harness name=enc_m24_bytes props=C08 kind=complete note="24-field map, bytes only (through an index-store sink instead of Cursor)"
#[cfg(kani)]
#[kani::proof]
fn enc_m24_bytes() {
    let v: M24 = kani::any();
    let mut e = Encoder::new(Store::<56> { b: kani::any(), n: 0 });
    let ok = v.encode(&mut e, &mut ()).is_ok();
    chk!(ok, "encoding succeeds");
    let got = e.into_writer();
    let mut want = Out::<64>::new();
    ref_m24(&mut want, &v, &NOH, PREF);
    chk!(got.n == want.n, "C08: number of bytes");
    let mut i = 0;
    while i < 56 { if i < got.n { chk!(got.b[i] == want.b[i], "C08: bytes equal the documented format") } i += 1 }
    kani::cover!(v.f22.is_none() && v.f24.is_some());
}

// =====================================================================================================================
// Second batch: schema features not exercised above
// =====================================================================================================================

/// like `dec_harness!` with an explicit unwinding bound (long arrays)
macro_rules! dec_harness_u {
    ($name:ident, $unw:expr, $skip:ident, $wt:ty => $rt:ty, $cap:expr, $reff:path, $fr:expr, $h:expr, |$hh:ident| $mk:expr, |$v:ident| $expect:expr) => {
        #[cfg(kani)]
        #[kani::proof]
        #[kani::stub(minicbor::decode::Decoder::skip, $skip)]
        #[kani::unwind($unw)]
        fn $name() {
            let $hh: Hints = $h;
            let $v: $wt = $mk;
            let mut inp = Out::<$cap>::new();
            $reff(&mut inp, &$v, &$hh, $fr);
            let mut d = Decoder::new(&inp.b[.. inp.n]);
            let r: Result<$rt, minicbor::decode::Error> = Decode::decode(&mut d, &mut ());
            match r {
                Ok(w) => {
                    let want: $rt = $expect;
                    chk!(w == want, "decoded value");
                    chk!(d.position() == inp.n, "exact consumption");
                }
                Err(_) => chk!(false, "decoding the reference encoding succeeds"),
            }
            kani::cover!(inp.n >= 1);
        }
    }
}

/// `enc_harness!` through the index-store sink (for encoders with many writes, where `Cursor` is too expensive)
macro_rules! enc_store_harness {
    ($name:ident, $t:ty, $cap:expr, $reff:path, |$v:ident| $cover:expr) => {
        #[cfg(kani)]
        #[kani::proof]
        fn $name() {
            let $v: $t = kani::any();
            let mut e = Encoder::new(Store::<$cap> { b: kani::any(), n: 0 });
            let ok = $v.encode(&mut e, &mut ()).is_ok();
            chk!(ok, "encoding succeeds");
            let got = e.into_writer();
            let mut want = Out::<{ $cap + 8 }>::new();
            $reff(&mut want, &$v, &NOH, PREF);
            chk!(got.n == want.n, "C08: number of bytes");
            let mut i = 0;
            while i < $cap { if i < got.n { chk!(got.b[i] == want.b[i], "C08: bytes equal the documented format") } i += 1 }
            chk!($v.cbor_len(&mut ()) == got.n, "C07: cbor_len == bytes written");
            kani::cover!($cover);
        }
    }
}

// ---- 1. tuple structs with non-contiguous indexes and a field after the gap; highest index 23 (array of 24: 2-byte head)
// ---- 2. lowest index >= 1 (leading gap: position 0 is NULL) in a struct, a tuple struct and enum variants
// ---- 3. unit variants with a variant-level encoding attribute that differs from the enum-level one
family! {
    pub struct T3(#[n(0)] u8, #[n(2)] u8, #[n(3)] u8);
    pub struct T23(#[n(0)] u8, #[n(23)] u8);
    pub struct AL { #[n(1)] a: u8, #[n(2)] b: u8 }
    pub struct AL2(#[n(2)] u8);
    pub enum EL { #[n(0)] V(#[n(1)] u8), #[n(1)] W { #[n(2)] y: bool } }
    #[cbor(array)] pub enum EUA { #[n(0)] #[cbor(map)] A, #[n(1)] B, #[n(2)] #[cbor(map)] C { #[n(0)] x: u8 } }
    #[cbor(map)] pub enum EUM { #[n(0)] #[cbor(array)] A, #[n(1)] B, #[n(2)] #[cbor(array)] C { #[n(0)] x: u8 } }
}

fn ref_t3<const N: usize>(o: &mut Out<N>, v: &T3, h: &Hints, fr: Fr) {
    o.structure(false, NOTAG, &[cls(h[0], fu(0, v.0 as u64)), cls(h[1], fu(2, v.1 as u64)), cls(h[2], fu(3, v.2 as u64))], fr)
}
fn ref_t23<const N: usize>(o: &mut Out<N>, v: &T23, h: &Hints, fr: Fr) {
    o.structure(false, NOTAG, &[cls(h[0], fu(0, v.0 as u64)), cls(h[1], fu(23, v.1 as u64))], fr)
}
fn ref_al<const N: usize>(o: &mut Out<N>, v: &AL, h: &Hints, fr: Fr) {
    o.structure(false, NOTAG, &[cls(h[0], fu(1, v.a as u64)), cls(h[1], fu(2, v.b as u64))], fr)
}
fn ref_al2<const N: usize>(o: &mut Out<N>, v: &AL2, h: &Hints, fr: Fr) {
    o.structure(false, NOTAG, &[cls(h[0], fu(2, v.0 as u64))], fr)
}
fn ref_el<const N: usize>(o: &mut Out<N>, v: &EL, h: &Hints, fr: Fr) {
    match v {
        EL::V(x) => { o.enum_prefix(NOTAG, false, 0, fr); o.structure(false, NOTAG, &[cls(h[0], fu(1, *x as u64))], fr) }
        EL::W { y } => { o.enum_prefix(NOTAG, false, 1, fr); o.structure(false, NOTAG, &[fb(2, *y)], fr) }
    }
}
fn ref_eua<const N: usize>(o: &mut Out<N>, v: &EUA, h: &Hints, fr: Fr) {
    match v {
        EUA::A => { o.enum_prefix(NOTAG, false, 0, fr); o.structure(true, NOTAG, &[], fr) }
        EUA::B => { o.enum_prefix(NOTAG, false, 1, fr); o.structure(false, NOTAG, &[], fr) }
        EUA::C { x } => { o.enum_prefix(NOTAG, false, 2, fr); o.structure(true, NOTAG, &[cls(h[0], fu(0, *x as u64))], fr) }
    }
}
fn ref_eum<const N: usize>(o: &mut Out<N>, v: &EUM, h: &Hints, fr: Fr) {
    match v {
        EUM::A => { o.enum_prefix(NOTAG, false, 0, fr); o.structure(false, NOTAG, &[], fr) }
        EUM::B => { o.enum_prefix(NOTAG, false, 1, fr); o.structure(true, NOTAG, &[], fr) }
        EUM::C { x } => { o.enum_prefix(NOTAG, false, 2, fr); o.structure(false, NOTAG, &[cls(h[0], fu(0, *x as u64))], fr) }
    }
}

// @harness name=enc2_t3 props=C08,C07 kind=complete
enc_harness!(enc2_t3, T3, 16, ref_t3, |v| true, true, v.1 >= 24);
// @harness name=dec2_t3_111 props=C09 kind=complete
dec_harness!(dec2_t3_111, T3, ref_t3, PREF, h3(1, 1, 1), |h| T3(u8c(h[0]), u8c(h[1]), u8c(h[2])));
// @harness name=dec2_t3_w000 props=C09 kind=complete note="values < 24 with heads widened to one argument byte"
dec_harness!(dec2_t3_w000, T3, ref_t3, WIDE1, h3(0, 0, 0), |h| T3(u8c(h[0]), u8c(h[1]), u8c(h[2])));
// @harness name=enc2_t23 props=C08,C07 kind=complete note="array(24): the head is 98 18"
enc_store_harness!(enc2_t23, T23, 32, ref_t23, |v| v.1 >= 24);
// @harness name=dec2_t23_11 props=C09 kind=complete
dec_harness_u!(dec2_t23_11, 26, skip0, T23 => T23, 32, ref_t23, PREF, h2(1, 1), |h| T23(u8c(h[0]), u8c(h[1])), |v| v);
// @harness name=enc2_lead_struct props=C08,C07 kind=complete
enc_harness!(enc2_lead_struct, AL, 16, ref_al, |v| true, true, v.a >= 24);
// @harness name=dec2_al_11 props=C09 kind=complete
dec_harness!(dec2_al_11, AL, ref_al, PREF, h2(1, 1), |h| AL { a: u8c(h[0]), b: u8c(h[1]) });
// @harness name=dec2_al_w00 props=C09 kind=complete
dec_harness!(dec2_al_w00, AL, ref_al, WIDE1, h2(0, 0), |h| AL { a: u8c(h[0]), b: u8c(h[1]) });
// @harness name=enc2_lead_tuple props=C08,C07 kind=complete
enc_harness!(enc2_lead_tuple, AL2, 16, ref_al2, |v| true, true, v.0 >= 24);
// @harness name=dec2_al2_1 props=C09 kind=complete
dec_harness!(dec2_al2_1, AL2, ref_al2, PREF, h1(1), |h| AL2(u8c(h[0])));
// @harness name=dec2_al2_0 props=C09 kind=complete
dec_harness!(dec2_al2_0, AL2, ref_al2, PREF, h1(0), |h| AL2(u8c(h[0])));
// @harness name=enc2_el props=C08,C07 kind=complete
enc_harness!(enc2_el, EL, 16, ref_el, |v| true, true, matches!(v, EL::W { .. }));
// @harness name=dec2_el_v1 props=C09 kind=complete
dec_harness!(dec2_el_v1, EL, ref_el, PREF, h1(1), |h| EL::V(u8c(h[0])));
// @harness name=dec2_el_w props=C09 kind=complete
dec_harness!(dec2_el_w, EL, ref_el, PREF, NOH, |h| EL::W { y: kani::any() });
// @harness name=enc2_eua props=C08,C07 kind=complete note="unit variant body = empty struct encoding in the variant's effective encoding"
enc_harness!(enc2_eua, EUA, 16, ref_eua, |v| true, true, matches!(v, EUA::A));
// @harness name=enc2_eum props=C08,C07 kind=complete
enc_harness!(enc2_eum, EUM, 16, ref_eum, |v| true, true, matches!(v, EUM::A));
// @harness name=dec2_eua_a props=C09 kind=complete
dec_harness!(dec2_eua_a, skip1, EUA => EUA, 24, ref_eua, PREF, NOH, |h| EUA::A, |v| v);
// @harness name=dec2_eua_b props=C09 kind=complete
dec_harness!(dec2_eua_b, skip1, EUA => EUA, 24, ref_eua, PREF, NOH, |h| EUA::B, |v| v);
// @harness name=dec2_eua_c1 props=C09 kind=complete
dec_harness!(dec2_eua_c1, skip1, EUA => EUA, 24, ref_eua, PREF, h1(1), |h| EUA::C { x: u8c(h[0]) }, |v| v);
// @harness name=dec2_eum_a props=C09 kind=complete
dec_harness!(dec2_eum_a, skip1, EUM => EUM, 24, ref_eum, PREF, NOH, |h| EUM::A, |v| v);
// @harness name=dec2_eum_b props=C09 kind=complete
dec_harness!(dec2_eum_b, skip1, EUM => EUM, 24, ref_eum, PREF, NOH, |h| EUM::B, |v| v);
// @harness name=dec2_eum_c1 props=C09 kind=complete
dec_harness!(dec2_eum_c1, skip1, EUM => EUM, 24, ref_eum, PREF, h1(1), |h| EUM::C { x: u8c(h[0]) }, |v| v);

// ---- 4. custom codecs with nil awareness, every attribute order.  `Opt(0)` means "absent": it must be omitted (map),
// ----    trimmed at the end / written as NULL below the highest present index (array), exactly like `Option::None`.
#[derive(PartialEq, Clone, Copy)]
#[cfg_attr(kani, derive(kani::Arbitrary))]
pub struct Opt(pub u8);
pub mod optc {
    use super::Opt;
    use minicbor::{Encoder, Decoder};
    pub fn encode<C, W: minicbor::encode::Write>(v: &Opt, e: &mut Encoder<W>, _: &mut C) -> Result<(), minicbor::encode::Error<W::Error>> {
        if v.0 == 0 { e.null()?; } else { e.u8(v.0)?; }
        Ok(())
    }
    pub fn decode<'b, C>(d: &mut Decoder<'b>, _: &mut C) -> Result<Opt, minicbor::decode::Error> {
        // NULL is probed on the raw byte (`Decoder::datatype` dispatches over every initial byte: expensive for CBMC)
        let p = d.position();
        if d.input().get(p) == Some(&0xf6) { d.set_position(p + 1); Ok(Opt(0)) } else { d.u8().map(Opt) }
    }
    pub fn is_nil(v: &Opt) -> bool { v.0 == 0 }
    pub fn nil() -> Option<Opt> { Some(Opt(0)) }
    pub fn cbor_len<C>(v: &Opt, _: &mut C) -> usize { if v.0 < 24 { 1 } else { 2 } }
}
family! {
    // array encoding: (0) encode part first, decode_with last, ONE attribute; (1) the same split over TWO attributes;
    // (2) decode_with first; (3) with = module, has_nil
    pub struct CA {
        #[cbor(n(0), encode_with = "optc::encode", is_nil = "optc::is_nil", decode_with = "optc::decode", cbor_len = "optc::cbor_len")] o0: Opt,
        #[n(1)] #[cbor(encode_with = "optc::encode", is_nil = "optc::is_nil")] #[cbor(decode_with = "optc::decode", cbor_len = "optc::cbor_len")] o1: Opt,
        #[cbor(n(2), decode_with = "optc::decode", nil = "optc::nil", encode_with = "optc::encode", is_nil = "optc::is_nil", cbor_len = "optc::cbor_len")] o2: Opt,
        #[cbor(n(3), with = "optc", has_nil)] o3: Opt
    }
    // map encoding: (0) as CA.o0; (1) is_nil written BEFORE the codec paths; (2) decode part in the first attribute,
    // encode part in the second; (3) has_nil before with
    #[cbor(map)] pub struct CM {
        #[cbor(n(0), encode_with = "optc::encode", is_nil = "optc::is_nil", decode_with = "optc::decode", cbor_len = "optc::cbor_len")] o0: Opt,
        #[cbor(n(1), is_nil = "optc::is_nil", decode_with = "optc::decode", encode_with = "optc::encode", cbor_len = "optc::cbor_len")] o1: Opt,
        #[n(2)] #[cbor(decode_with = "optc::decode", nil = "optc::nil")] #[cbor(encode_with = "optc::encode", is_nil = "optc::is_nil", cbor_len = "optc::cbor_len")] o2: Opt,
        #[cbor(n(3), has_nil, with = "optc")] o3: Opt
    }
}
/// `claim`: AUTO, or the harness's claim about presence (1 present, 0 absent), asserted - keeps the layout concrete (decode side)
fn fo(idx: u32, v: &Opt, claim: u8) -> F {
    let present = if claim == AUTO { v.0 != 0 } else { chk!((claim == 1) == (v.0 != 0), "reference encoder: claimed presence is the actual one"); claim == 1 };
    if present { fu(idx, v.0 as u64) } else { absent(idx) }
}
fn ref_ca<const N: usize>(o: &mut Out<N>, v: &CA, h: &Hints, fr: Fr) {
    o.structure(false, NOTAG, &[cls(h[0], fo(0, &v.o0, h[4])), cls(h[1], fo(1, &v.o1, h[5])), cls(h[2], fo(2, &v.o2, h[6])), cls(h[3], fo(3, &v.o3, h[7]))], fr)
}
fn ref_cm<const N: usize>(o: &mut Out<N>, v: &CM, h: &Hints, fr: Fr) {
    o.structure(true, NOTAG, &[cls(h[0], fo(0, &v.o0, h[4])), cls(h[1], fo(1, &v.o1, h[5])), cls(h[2], fo(2, &v.o2, h[6])), cls(h[3], fo(3, &v.o3, h[7]))], fr)
}
// @harness name=enc2_codec_arr props=C08,C07 kind=complete note="custom codecs with is_nil in four attribute orders, array encoding"
enc_store_harness!(enc2_codec_arr, CA, 16, ref_ca, |v| v.o1.0 == 0 && v.o3.0 != 0);
// @harness name=enc2_codec_map props=C08,C07 kind=complete note="custom codecs with is_nil in four attribute orders, map encoding"
enc_store_harness!(enc2_codec_map, CM, 16, ref_cm, |v| v.o1.0 == 0 && v.o3.0 != 0);
// @harness name=dec2_codec_arr_full props=C09 kind=complete
dec_harness!(dec2_codec_arr_full, skip0, CA => CA, 24, ref_ca, PREF, [1, 1, 1, 1, 1, 1, 1, 1], |h| CA { o0: Opt(u8c(1)), o1: Opt(u8c(1)), o2: Opt(u8c(1)), o3: Opt(u8c(1)) }, |v| v);
// @harness name=dec2_codec_arr_trim props=C09 kind=complete note="o2, o3 absent (trimmed): nil() supplies them"
dec_harness!(dec2_codec_arr_trim, skip0, CA => CA, 24, ref_ca, PREF, [1, 1, AUTO, AUTO, 1, 1, 0, 0], |h| CA { o0: Opt(u8c(1)), o1: Opt(u8c(1)), o2: Opt(0), o3: Opt(0) }, |v| v);
// @harness name=dec2_codec_arr_null props=C09 kind=complete note="o1 absent below the highest present index: NULL at position 1; o3 trimmed"
dec_harness!(dec2_codec_arr_null, skip0, CA => CA, 24, ref_ca, PREF, [1, AUTO, 1, AUTO, 1, 0, 1, 0], |h| CA { o0: Opt(u8c(1)), o1: Opt(0), o2: Opt(u8c(1)), o3: Opt(0) }, |v| v);
// @harness name=dec2_codec_map_omit props=C09 kind=complete note="o2, o3 absent (omitted): nil() supplies them"
dec_harness!(dec2_codec_map_omit, skip0, CM => CM, 24, ref_cm, PREF, [1, 1, AUTO, AUTO, 1, 1, 0, 0], |h| CM { o0: Opt(u8c(1)), o1: Opt(u8c(1)), o2: Opt(0), o3: Opt(0) }, |v| v);

// ---- 5. borrowing: after decoding, `&str` / `&ByteSlice` / `Cow::Borrowed` fields point INTO the input buffer (payload <= 3 bytes)
#[derive(Encode, Decode)]
pub struct BS<'a> { #[b(0)] s: &'a str, #[n(1)] z: bool }
#[derive(Encode, Decode)]
pub struct BB<'a> { #[n(0)] z: bool, #[b(1)] s: &'a minicbor::bytes::ByteSlice }

#[cfg(kani)] fn ascii() -> u8 { let x: u8 = kani::any(); kani::assume(x < 0x80); x }

// @harness name=bor_str3 props=C09 kind=bounded bound="text payload of 3 ASCII bytes"
#[cfg(kani)]
#[kani::proof]
#[kani::stub(minicbor::decode::Decoder::skip, skip0)]
#[kani::unwind(8)]
fn bor_str3() {
    let (c0, c1, c2, z) = (ascii(), ascii(), ascii(), kani::any::<bool>());
    let inp: [u8; 6] = [0x82, 0x63, c0, c1, c2, bb(z)];
    let mut d = Decoder::new(&inp[..]);
    let r: Result<BS<'_>, minicbor::decode::Error> = Decode::decode(&mut d, &mut ());
    match r {
        Ok(w) => {
            chk!(w.z == z && w.s.len() == 3, "decoded value");
            let b = w.s.as_bytes();
            chk!(b[0] == c0 && b[1] == c1 && b[2] == c2, "decoded text");
            chk!(core::ptr::eq(w.s.as_ptr(), inp[2 ..].as_ptr()), "C09: the &str field points into the input buffer");
            chk!(d.position() == 6, "exact consumption");
        }
        Err(_) => chk!(false, "decoding succeeds"),
    }
    kani::cover!(true);
}
// @harness name=bor_bytes3 props=C09 kind=bounded bound="byte payload of 3 bytes"
#[cfg(kani)]
#[kani::proof]
#[kani::stub(minicbor::decode::Decoder::skip, skip0)]
#[kani::unwind(8)]
fn bor_bytes3() {
    let (c0, c1, c2, z) = (kani::any::<u8>(), kani::any::<u8>(), kani::any::<u8>(), kani::any::<bool>());
    let inp: [u8; 6] = [0x82, bb(z), 0x43, c0, c1, c2];
    let mut d = Decoder::new(&inp[..]);
    let r: Result<BB<'_>, minicbor::decode::Error> = Decode::decode(&mut d, &mut ());
    match r {
        Ok(w) => {
            chk!(w.z == z && w.s.len() == 3, "decoded value");
            chk!(w.s[0] == c0 && w.s[1] == c1 && w.s[2] == c2, "decoded bytes");
            chk!(core::ptr::eq(w.s.as_ptr(), inp[3 ..].as_ptr()), "C09: the &ByteSlice field points into the input buffer");
            chk!(d.position() == 6, "exact consumption");
        }
        Err(_) => chk!(false, "decoding succeeds"),
    }
    kani::cover!(true);
}
// @harness name=bor_bytes0 props=C09 kind=bounded bound="empty byte payload"
#[cfg(kani)]
#[kani::proof]
#[kani::stub(minicbor::decode::Decoder::skip, skip0)]
#[kani::unwind(8)]
fn bor_bytes0() {
    let z: bool = kani::any();
    let inp: [u8; 4] = [0x82, bb(z), 0x40, 0x00];
    let mut d = Decoder::new(&inp[..]);
    let r: Result<BB<'_>, minicbor::decode::Error> = Decode::decode(&mut d, &mut ());
    match r {
        Ok(w) => {
            chk!(w.z == z && w.s.len() == 0, "decoded value");
            chk!(core::ptr::eq(w.s.as_ptr(), inp[3 ..].as_ptr()), "C09: the empty slice still points into the input buffer");
            chk!(d.position() == 3, "exact consumption");
        }
        Err(_) => chk!(false, "decoding succeeds"),
    }
    kani::cover!(true);
}

#[cfg(feature = "alloc")]
extern crate alloc;
#[cfg(feature = "alloc")]
#[derive(Encode, Decode)]
#[cbor(transparent)]
pub struct CW<'a>(#[b(0)] alloc::borrow::Cow<'a, minicbor::bytes::ByteSlice>);
/// `alloc` builds: `decode::Error::with_message` formats into a String, irrelevant to every contract here (spec/kani_stubs.rs)
#[cfg(all(kani, feature = "alloc"))]
pub fn with_message_stub<T: core::fmt::Display>(e: minicbor::decode::Error, _m: T) -> minicbor::decode::Error { e }

// @harness name=bor_cow_transparent3 props=C09 kind=bounded features=alloc bound="byte payload of 3 bytes"
#[cfg(all(kani, feature = "alloc"))]
#[kani::proof]
#[kani::stub(minicbor::decode::Decoder::skip, skip0)]
#[kani::stub(minicbor::decode::Error::with_message, with_message_stub)]
#[kani::unwind(8)]
fn bor_cow_transparent3() {
    let (c0, c1, c2) = (kani::any::<u8>(), kani::any::<u8>(), kani::any::<u8>());
    let inp: [u8; 4] = [0x43, c0, c1, c2];
    let mut d = Decoder::new(&inp[..]);
    let r: Result<CW<'_>, minicbor::decode::Error> = Decode::decode(&mut d, &mut ());
    match r {
        Ok(w) => {
            chk!(matches!(w.0, alloc::borrow::Cow::Borrowed(_)), "C09: #[b] Cow field is Cow::Borrowed");
            chk!(w.0.len() == 3 && w.0[0] == c0 && w.0[2] == c2, "decoded bytes");
            chk!(core::ptr::eq(w.0.as_ptr(), inp[1 ..].as_ptr()), "C09: the Cow points into the input buffer");
            chk!(d.position() == 4, "exact consumption");
        }
        Err(_) => chk!(false, "decoding succeeds"),
    }
    kani::cover!(true);
}

// =====================================================================================================================
// Third batch
// =====================================================================================================================

// ---- 1. tuple struct, array encoding, index gap, OPTIONAL field(s) after the gap: the array ends at the highest PRESENT
// ----    index, gaps and absent optionals below it are NULL, nothing is written after it (`TGO(7, None)` = 81 07)
// ---- 2. unit variants (not index_only) with a variant-level tag: `[n, tag <empty struct encoding>]`
family! {
    pub struct TGO(#[n(0)] u8, #[n(2)] Option<u8>);
    pub struct TGO2(#[n(0)] u8, #[n(2)] Option<u8>, #[n(4)] Option<bool>);
    pub enum ET { #[n(0)] #[cbor(tag(7))] Unit, #[n(1)] Other(#[n(0)] u8) }
    #[cbor(map)] pub enum ETM { #[n(0)] #[cbor(tag(7))] Unit, #[n(1)] Other { #[n(0)] x: u8 } }
}
/// `Option<bool>` with a presence claim (1 present, 0 absent, AUTO computed), asserted: the niche layout of `Option<bool>`
/// otherwise makes the presence symbolic on the decode side
fn ob_c(idx: u32, x: &Option<bool>, claim: u8) -> F {
    if claim == AUTO { return ob(idx, x) }
    chk!((claim == 1) == x.is_some(), "reference encoder: claimed presence is the actual one");
    if claim == 1 { fb(idx, *x == Some(true)) } else { absent(idx) }
}
fn ref_tgo<const N: usize>(o: &mut Out<N>, v: &TGO, h: &Hints, fr: Fr) {
    o.structure(false, NOTAG, &[cls(h[0], fu(0, v.0 as u64)), cls(h[1], ou(2, &v.1))], fr)
}
fn ref_tgo2<const N: usize>(o: &mut Out<N>, v: &TGO2, h: &Hints, fr: Fr) {
    o.structure(false, NOTAG, &[cls(h[0], fu(0, v.0 as u64)), cls(h[1], ou(2, &v.1)), ob_c(4, &v.2, h[4])], fr)
}
fn ref_et<const N: usize>(o: &mut Out<N>, v: &ET, h: &Hints, fr: Fr) {
    match v {
        ET::Unit => { o.enum_prefix(NOTAG, false, 0, fr); o.structure(false, 7, &[], fr) }
        ET::Other(x) => { o.enum_prefix(NOTAG, false, 1, fr); o.structure(false, NOTAG, &[cls(h[0], fu(0, *x as u64))], fr) }
    }
}
fn ref_etm<const N: usize>(o: &mut Out<N>, v: &ETM, h: &Hints, fr: Fr) {
    match v {
        ETM::Unit => { o.enum_prefix(NOTAG, false, 0, fr); o.structure(true, 7, &[], fr) }
        ETM::Other { x } => { o.enum_prefix(NOTAG, false, 1, fr); o.structure(true, NOTAG, &[cls(h[0], fu(0, *x as u64))], fr) }
    }
}

// @harness name=enc3_tgo_pair props=C08,C07 kind=complete note="all values, both presence states; TGO(x, None) = 81 x"
enc_harness!(enc3_tgo_pair, TGO, 16, ref_tgo, |v| true, true, v.1.is_none());
// @harness name=enc3_tgo_triple props=C08,C07 kind=complete note="all values, all four presence combinations"
enc_harness!(enc3_tgo_triple, TGO2, 16, ref_tgo2, |v| true, true, v.1.is_none() && v.2.is_some());
// -- decode: TGO, masks {None, Some} x width classes
// @harness name=dec3_tgo_1n props=C09 kind=complete
dec_harness!(dec3_tgo_1n, TGO, ref_tgo, PREF, h2(1, AUTO), |h| TGO(u8c(h[0]), None));
// @harness name=dec3_tgo_0n props=C09 kind=complete
dec_harness!(dec3_tgo_0n, TGO, ref_tgo, PREF, h2(0, AUTO), |h| TGO(u8c(h[0]), None));
// @harness name=dec3_tgo_11 props=C09 kind=complete
dec_harness!(dec3_tgo_11, TGO, ref_tgo, PREF, h2(1, 1), |h| TGO(u8c(h[0]), Some(u8c(h[1]))));
// @harness name=dec3_tgo_10 props=C09 kind=complete
dec_harness!(dec3_tgo_10, TGO, ref_tgo, PREF, h2(1, 0), |h| TGO(u8c(h[0]), Some(u8c(h[1]))));
// @harness name=dec3_tgo_w00 props=C09 kind=complete note="values < 24 with heads widened to one argument byte"
dec_harness!(dec3_tgo_w00, TGO, ref_tgo, WIDE1, h2(0, 0), |h| TGO(u8c(h[0]), Some(u8c(h[1]))));
// -- decode: TGO2, the four presence masks (n = None, s = Some)
// @harness name=dec3_tgo2_nn props=C09 kind=complete
dec_harness!(dec3_tgo2_nn, TGO2, ref_tgo2, PREF, [1, AUTO, AUTO, AUTO, 0, AUTO, AUTO, AUTO], |h| TGO2(u8c(h[0]), None, None));
// @harness name=dec3_tgo2_sn props=C09 kind=complete
dec_harness!(dec3_tgo2_sn, TGO2, ref_tgo2, PREF, [1, 1, AUTO, AUTO, 0, AUTO, AUTO, AUTO], |h| TGO2(u8c(h[0]), Some(u8c(h[1])), None));
// @harness name=dec3_tgo2_ns props=C09 kind=complete note="82-form: 85 x f6 f6 f6 b - absent optional below the highest present index is NULL"
dec_harness!(dec3_tgo2_ns, TGO2, ref_tgo2, PREF, [1, AUTO, AUTO, AUTO, 1, AUTO, AUTO, AUTO], |h| TGO2(u8c(h[0]), None, Some(kani::any())));
// @harness name=dec3_tgo2_ss props=C09 kind=complete
dec_harness!(dec3_tgo2_ss, TGO2, ref_tgo2, PREF, [1, 1, AUTO, AUTO, 1, AUTO, AUTO, AUTO], |h| TGO2(u8c(h[0]), Some(u8c(h[1])), Some(kani::any())));
// @harness name=dec3_tgo2_w00s props=C09 kind=complete
dec_harness!(dec3_tgo2_w00s, TGO2, ref_tgo2, WIDE1, [0, 0, AUTO, AUTO, 1, AUTO, AUTO, AUTO], |h| TGO2(u8c(h[0]), Some(u8c(h[1])), Some(kani::any())));

// @harness name=enc3_et_arr props=C08,C07 kind=complete note="ET::Unit = 82 00 c7 80"
enc_harness!(enc3_et_arr, ET, 16, ref_et, |v| true, true, matches!(v, ET::Unit));
// @harness name=enc3_et_map props=C08,C07 kind=complete note="ETM::Unit = 82 00 c7 a0"
enc_harness!(enc3_et_map, ETM, 16, ref_etm, |v| true, true, matches!(v, ETM::Unit));
// @harness name=dec3_et_arr_unit props=C09 kind=complete
dec_harness!(dec3_et_arr_unit, skip1, ET => ET, 24, ref_et, PREF, NOH, |h| ET::Unit, |v| v);
// @harness name=dec3_et_arr_other1 props=C09 kind=complete
dec_harness!(dec3_et_arr_other1, skip1, ET => ET, 24, ref_et, PREF, h1(1), |h| ET::Other(u8c(h[0])), |v| v);
// @harness name=dec3_et_map_unit props=C09 kind=complete
dec_harness!(dec3_et_map_unit, skip1, ETM => ETM, 24, ref_etm, PREF, NOH, |h| ETM::Unit, |v| v);
// @harness name=dec3_et_map_other1 props=C09 kind=complete
dec_harness!(dec3_et_map_other1, skip1, ETM => ETM, 24, ref_etm, PREF, h1(1), |h| ETM::Other { x: u8c(h[0]) }, |v| v);
// -- wrong / missing tag of a unit variant is an error, never papered over
// @harness name=err3_et_arr_wrong_tag8 props=C09 kind=complete note="82 00 c8 80"
err_harness!(err3_et_arr_wrong_tag8, ET, 4, [0x82, 0x00, 0xc8, 0x80], |e| e.is_tag_mismatch());
// @harness name=err3_et_arr_wrong_tag_any props=C09 kind=complete note="82 00 d8 t 80 for every t != 7"
err_harness!(err3_et_arr_wrong_tag_any, ET, 5, [0x82, 0x00, 0xd8, { let t: u8 = kani::any(); kani::assume(t != 7); t }, 0x80], |e| e.is_tag_mismatch());
// @harness name=err3_et_arr_missing_tag props=C09 kind=complete note="82 00 80"
err_harness!(err3_et_arr_missing_tag, ET, 3, [0x82, 0x00, 0x80], |e| e.is_type_mismatch());
// @harness name=err3_et_map_wrong_tag8 props=C09 kind=complete note="82 00 c8 a0"
err_harness!(err3_et_map_wrong_tag8, ETM, 4, [0x82, 0x00, 0xc8, 0xa0], |e| e.is_tag_mismatch());
// @harness name=err3_et_map_missing_tag props=C09 kind=complete note="82 00 a0"
err_harness!(err3_et_map_missing_tag, ETM, 3, [0x82, 0x00, 0xa0], |e| e.is_type_mismatch());
